// C11 - fitted models reproduce their reported statistics; early stopping keeps the right round.
//
// mode "earlystop": gboost::early_stopping_t is driven side by side with a reference monitor written from the statement
//   * cases [0, 800): EXHAUSTIVE - case = (with/without validation samples) x patience 1..4 x the first two symbols of the
//     history; the case explores (depth first, copying both monitors at every branch) every continuation up to length
//     `maxlen` (8 quick / 10 thorough, --maxlen overrides) over a 10-symbol alphabet = 5 validation levels {0.5, 0.5-eps,
//     0.5-eps/2, 0.25, 0.75} x training error {above eps, below eps}; all values are dyadic so that "improvement == eps"
//     is hit exactly.  Every decision (stop / continue), the reported round, value and per-sample snapshot are compared.
//   * cases >= 800: random histories up to length 200 on an eps/2 grid (eps = 2^-k, k in 1..40), patience up to 1000,
//     1..4 training / 0..4 validation samples at shuffled positions, training error above / equal / below eps.
// mode "fit": one full gboost_model_t::fit (even cases) or linear_t::fit (odd cases) on a small generated dataset; every
//   stored statistic (trial, fold, train|valid, errors|losses, 12 values) and the final ones are recomputed from the stored
//   model (extra(trial, fold) / the fitted model) on the re-derived fold samples; boosting prediction = bias + sum of weak
//   learners; final boosting model = average of the fold models of the optimum trial; the reported round (statistics rows)
//   versus kept weak learners, versus the recorded error history (reference monitor) and versus the recomputed means.
#include "common/vf.h"
#include <algorithm>
#include <any>
#include <nano/core/parallel.h>
#include <nano/core/random.h>
#include <nano/dataset.h>
#include <nano/gboost/early_stopping.h>
#include <nano/gboost/enums.h>
#include <nano/gboost/model.h>
#include <nano/gboost/result.h>
#include <nano/generator/elemwise_identity.h>
#include <nano/linear.h>
#include <nano/linear/result.h>
#include <nano/loss.h>
#include <nano/machine/stats.h>
#include <nano/wlearner.h>

using namespace nano;

namespace
{
// =====================================================================================================================
// early stopping
// =====================================================================================================================

///
/// \brief the reference monitor, written from the property statement:
///     stop exactly when the training error drops below epsilon or no validation improvement larger than epsilon was
///     accepted in the last `patience` rounds; an improvement is accepted when it is larger than epsilon (or always when
///     there are no validation samples, or when the training error dropped below epsilon); the reported round / value /
///     snapshot are those of the last accepted step.
///
struct ref_monitor_t
{
    double              best{std::numeric_limits<double>::max()};
    size_t              round{0};
    size_t              accepted{0};
    std::vector<double> snapshot;

    bool step(const double train, const double valid, const bool has_valid, const size_t rounds, const double* values,
              const size_t nvalues, const double eps, const size_t patience)
    {
        const bool below  = train < eps;
        const bool accept = below || !has_valid || (best - valid > eps);
        if (accept)
        {
            best  = valid;
            round = rounds;
            snapshot.assign(values, values + nvalues);
            ++accepted;
        }
        if (below)
        {
            return true;
        }
        if (accept)
        {
            return false;
        }
        return rounds - round >= patience;
    }
};

struct es_totals_t
{
    int64_t decisions{0}, stops{0}, maximal{0}, nontrivial{0}, accepted_steps{0}, rejected_steps{0}, violations{0}, nt_emitted{0};
    int64_t max_len{0};
};

struct es_step_t
{
    double valid{0}, train{0};
};

vf::json_t es_witness(const std::vector<es_step_t>& hist, const bool has_valid, const size_t patience, const double eps)
{
    std::vector<double> v, t;
    for (const auto& s : hist)
    {
        v.push_back(s.valid);
        t.push_back(s.train);
    }
    vf::json_t j;
    j.kv("has_validation_samples", has_valid).kv("patience", static_cast<unsigned long long>(patience)).kv("epsilon", eps);
    j.arr("validation_error_history", v.data(), v.size(), 210);
    j.arr("training_error_history", t.data(), t.size(), 210);
    return j;
}

///
/// \brief compare the library monitor with the reference after one step; returns false on a mismatch.
///
bool es_compare(vf::ctx_t& c, es_totals_t& tot, const gboost::early_stopping_t& es, const ref_monitor_t& ref, const bool r_lib,
                const bool r_ref, const std::vector<es_step_t>& hist, const bool has_valid, const size_t patience,
                const double eps, const char* where)
{
    ++tot.decisions;
    const char* clause = nullptr;
    if (r_lib != r_ref)
    {
        clause = "stop-decision";
    }
    else if (es.round() != ref.round)
    {
        clause = "round";
    }
    else if (!(es.value() == ref.best))
    {
        clause = "value";
    }
    else
    {
        const auto& got = es.values();
        if (static_cast<size_t>(got.size()) != ref.snapshot.size() ||
            !std::equal(ref.snapshot.begin(), ref.snapshot.end(), got.data()))
        {
            clause = "snapshot";
        }
    }
    if (clause == nullptr)
    {
        return true;
    }
    ++tot.violations;
    if (tot.violations <= 3)
    {
        auto j = es_witness(hist, has_valid, patience, eps);
        j.kv("step", static_cast<unsigned long long>(hist.size() - 1));
        j.kv("done_library", r_lib).kv("done_reference", r_ref);
        j.kv("round_library", static_cast<unsigned long long>(es.round())).kv("round_reference", static_cast<unsigned long long>(ref.round));
        j.kv("value_library", es.value()).kv("value_reference", ref.best);
        j.arr("snapshot_library", es.values().data(), static_cast<size_t>(es.values().size()), 24);
        j.arr("snapshot_reference", ref.snapshot.data(), ref.snapshot.size(), 24);
        c.violation(std::string("C11|earlystop|") + clause + "|" + where, j);
    }
    return false;
}

void es_end_of_history(vf::ctx_t& c, es_totals_t& tot, const ref_monitor_t& ref, const std::vector<es_step_t>& hist,
                       const uint64_t salt)
{
    ++tot.maximal;
    tot.max_len          = std::max<int64_t>(tot.max_len, static_cast<int64_t>(hist.size()));
    const auto last_round = hist.size() - 1; // weak learners at the last step
    if (ref.accepted >= 2 && ref.round < last_round)
    {
        ++tot.nontrivial;
        if (tot.nt_emitted < 16)
        {
            ++tot.nt_emitted;
            c.nontrivial(vf::hash_bytes(hist.data(), hist.size() * sizeof(es_step_t), salt));
        }
    }
}

struct es_exhaustive_t
{
    vf::ctx_t*                c{nullptr};
    es_totals_t*              ptot{nullptr};
    int                       maxlen{6};
    bool                      has_valid{false};
    size_t                    patience{1};
    double                    eps{0};
    int                       forced[2]{0, 0};
    indices_t                 train, valid;
    std::vector<rwlearners_t> wlearners; ///< wlearners[d] has d (null) entries: only the size is read
    std::vector<es_step_t>    hist;
    tensor2d_t                values;
    double                    alphabet[5]{0, 0, 0, 0, 0};
    uint64_t                  salt{0};

    void explore(const int depth, const gboost::early_stopping_t& es0, const ref_monitor_t& ref0)
    {
        auto&     tot = *ptot;
        const int lo = depth < 2 ? forced[depth] : 0;
        const int hi = depth < 2 ? forced[depth] : 9;
        for (int sym = lo; sym <= hi; ++sym)
        {
            const int    a  = sym % 5;
            const int    t  = sym / 5;
            const double v  = alphabet[a];
            const double tr = t != 0 ? eps / 2 : 0.25;
            const double dl = 0.0078125 * depth; // dyadic spread: the mean of the two validation samples is exactly v
            values(0, 0)    = tr;
            values(0, 1)    = tr;
            values(0, 2)    = v + dl;
            values(0, 3)    = v - dl;
            values(1, 0)    = depth + 1;
            values(1, 1)    = 2 * (depth + 1) + 0.5 * a;
            values(1, 2)    = 3 * (depth + 1);
            values(1, 3)    = 4 * (depth + 1) + t;

            auto es  = es0;  // both monitors are copied at every branch
            auto ref = ref0;
            hist.push_back(es_step_t{has_valid ? v : 0.0, tr});
            const bool r_lib = es.done(values, train, valid, wlearners[static_cast<size_t>(depth)], eps, patience);
            const bool r_ref = ref.step(tr, has_valid ? v : 0.0, has_valid, static_cast<size_t>(depth), values.data(),
                                        static_cast<size_t>(values.size()), eps, patience);
            const bool ok = es_compare(*c, tot, es, ref, r_lib, r_ref, hist, has_valid, patience, eps, "exhaustive");
            if (ref.accepted > ref0.accepted)
            {
                ++tot.accepted_steps;
            }
            else
            {
                ++tot.rejected_steps;
            }
            if (ok)
            {
                if (r_lib)
                {
                    ++tot.stops;
                }
                if (r_lib || depth + 1 >= maxlen)
                {
                    es_end_of_history(*c, tot, ref, hist, salt);
                }
                else
                {
                    explore(depth + 1, es, ref);
                }
            }
            hist.pop_back();
        }
    }
};

void flush_es_totals(vf::ctx_t& c, const es_totals_t& tot)
{
    c.count("clause_stop_decision", tot.decisions);
    c.count("clause_round_value", tot.decisions);
    c.count("clause_snapshot", tot.decisions);
    c.count("es_history_prefixes", tot.decisions);
    c.count("es_maximal_histories", tot.maximal);
    c.count("es_stopped_histories", tot.stops);
    c.count("es_nontrivial_histories", tot.nontrivial);
    c.count("es_accepted_steps", tot.accepted_steps);
    c.count("es_rejected_steps", tot.rejected_steps);
    c.maxc("es_history_length", tot.max_len);
    if (tot.violations > 3)
    {
        c.count("es_violations_not_printed", tot.violations - 3);
    }
}

constexpr int64_t es_exhaustive_cases = 800;

void earlystop_exhaustive(vf::ctx_t& c, const int maxlen)
{
    const auto index     = c.index;
    const bool has_valid = ((index / 100) & 1) != 0;
    const auto patience  = static_cast<size_t>(1 + (index / 200) % 4);
    const auto prefix    = static_cast<int>(index % 100); // consecutive cases (= different shards) share the heavy blocks
    const int  s0 = prefix % 10, s1 = prefix / 10;

    es_totals_t     tot;
    const double    eps = 1.0 / 1048576.0; // 2^-20
    es_exhaustive_t e;
    e.c         = &c;
    e.ptot      = &tot;
    e.maxlen    = maxlen;
    e.has_valid = has_valid;
    e.patience  = patience;
    e.eps       = eps;
    e.forced[0] = s0;
    e.forced[1] = s1;
    e.train     = indices_t(2);
    e.valid     = indices_t(has_valid ? 2 : 0);
    e.values    = tensor2d_t(2, 4);
    e.salt      = vf::mix(static_cast<uint64_t>(index), 0xC11);
    const double alphabet[5] = {0.5, 0.5 - eps, 0.5 - eps / 2, 0.25, 0.75};
    std::copy(alphabet, alphabet + 5, e.alphabet);
    e.train(0) = 0;
    e.train(1) = 1;
    if (has_valid)
    {
        e.valid(0) = 2;
        e.valid(1) = 3;
    }
    e.wlearners.resize(static_cast<size_t>(maxlen) + 1);
    for (size_t d = 0; d < e.wlearners.size(); ++d)
    {
        e.wlearners[d].resize(d);
    }
    e.values.zero();

    // a history whose first step already stops (training error below epsilon) has no second symbol: enumerate it once
    if (s0 >= 5 && s1 != 0)
    {
        c.count("es_duplicate_prefix_cases");
        return;
    }
    if (maxlen < 2 && s1 != 0)
    {
        c.count("es_duplicate_prefix_cases");
        return;
    }

    tensor2d_t init(2, 4);
    init.full(-1.0);
    e.explore(0, gboost::early_stopping_t{init}, ref_monitor_t{});
    flush_es_totals(c, tot);
    c.count("es_exhaustive_cases");

    if (c.want_sample())
    {
        c.sample(vf::json_t()
                     .kv("kind", "exhaustive")
                     .kv("has_validation_samples", has_valid)
                     .kv("patience", static_cast<unsigned long long>(patience))
                     .kv("first_symbols", std::to_string(s0) + "," + std::to_string(s1))
                     .kv("maxlen", maxlen)
                     .kv("history_prefixes_compared", static_cast<long long>(tot.decisions))
                     .kv("maximal_histories", static_cast<long long>(tot.maximal))
                     .kv("nontrivial_histories", static_cast<long long>(tot.nontrivial)));
    }
}

void earlystop_random(vf::ctx_t& c)
{
    auto&       rng = c.rng;
    es_totals_t tot;
    const int   histories = c.args.thorough() ? 128 : 64;
    bool        inexact   = false;
    vf::json_t  sample;

    for (int h = 0; h < histories; ++h)
    {
        const int    k   = static_cast<int>(rng.integer(1, 40));
        const double eps = std::ldexp(1.0, -k);
        const double g   = eps / 2; // grid step
        const auto   patience =
            static_cast<size_t>(rng.chance(0.8) ? rng.integer(1, 6) : rng.pick(std::vector<int64_t>{10, 25, 50, 1000}));
        const bool has_valid = rng.chance(0.85);
        const auto n_train   = rng.integer(1, 4);
        const auto n_valid   = has_valid ? rng.integer(1, 4) : 0;
        const auto n_extra   = rng.integer(0, 2);
        const auto n_all     = n_train + n_valid + n_extra;
        const auto length    = static_cast<int>(rng.chance(0.3) ? rng.integer(1, 12) : rng.integer(13, 200));
        const double p_below = rng.pick(std::vector<double>{0.0, 0.005, 0.02, 0.1});
        const double p_equal = rng.pick(std::vector<double>{0.0, 0.05, 0.3});
        const int    style   = static_cast<int>(rng.integer(0, 2));

        // shuffled positions of the training / validation samples
        std::vector<tensor_size_t> pos(static_cast<size_t>(n_all));
        for (size_t i = 0; i < pos.size(); ++i)
        {
            pos[i] = static_cast<tensor_size_t>(i);
        }
        for (size_t i = pos.size(); i > 1; --i)
        {
            std::swap(pos[i - 1], pos[static_cast<size_t>(rng.integer(0, static_cast<int64_t>(i) - 1))]);
        }
        indices_t train(n_train), valid(n_valid);
        for (tensor_size_t i = 0; i < n_train; ++i)
        {
            train(i) = pos[static_cast<size_t>(i)];
        }
        for (tensor_size_t i = 0; i < n_valid; ++i)
        {
            valid(i) = pos[static_cast<size_t>(n_train + i)];
        }

        tensor2d_t values(2, n_all);
        values.full(-7.0);
        auto                   es = gboost::early_stopping_t{values};
        ref_monitor_t          ref;
        rwlearners_t           wlearners;
        std::vector<es_step_t> hist;
        int64_t                level = 0, best_level = 0; // validation error = 0.5 - level * g (higher level = lower error)
        bool                   stopped = false;

        for (int step = 0; step < length && !stopped; ++step)
        {
            // next validation level, relative to the best accepted one: differences of 1, 2 (== eps exactly), 3 grid steps
            // around the acceptance threshold, plus regressions and big jumps
            int64_t delta = 0;
            switch (style)
            {
            case 0: delta = rng.integer(-3, 3); break;
            case 1: delta = rng.chance(0.15) ? rng.integer(3, 6) : rng.integer(-4, 2); break;
            default: delta = rng.chance(0.5) ? 2 : rng.integer(-1, 3); break;
            }
            level = std::max<int64_t>(-1000, std::min<int64_t>(1000, best_level + delta));
            const double v  = 0.5 - static_cast<double>(level) * g;
            const double u  = rng.u01();
            const double tr = u < p_below ? eps / 2 : (u < p_below + p_equal ? eps : (rng.chance(0.5) ? 0.25 : eps * 2));

            for (tensor_size_t i = 0; i < n_all; ++i)
            {
                values(0, i) = 100.0 + static_cast<double>(rng.integer(0, 1000)); // samples outside both sets: never read
                values(1, i) = static_cast<double>(rng.integer(0, 1 << 20));
            }
            for (tensor_size_t i = 0; i < n_train; ++i)
            {
                values(0, train(i)) = tr;
            }
            // validation samples: pairs (v + d, v - d) and possibly v itself: the mean is exactly v
            for (tensor_size_t i = 0; i + 1 < n_valid; i += 2)
            {
                const double d          = static_cast<double>(rng.integer(0, 64)) / 1024.0;
                values(0, valid(i))     = v + d;
                values(0, valid(i + 1)) = v - d;
            }
            if ((n_valid % 2) == 1)
            {
                values(0, valid(n_valid - 1)) = v;
            }
            // the harness' own means (sequential sum, as the statement's "mean error"): must be the intended grid values
            double sum_t = 0, sum_v = 0;
            for (tensor_size_t i = 0; i < n_train; ++i)
            {
                sum_t += values(0, train(i));
            }
            for (tensor_size_t i = 0; i < n_valid; ++i)
            {
                sum_v += values(0, valid(i));
            }
            const double mean_t = sum_t / static_cast<double>(n_train);
            const double mean_v = has_valid ? sum_v / static_cast<double>(n_valid) : 0.0;
            if (mean_t != tr || (has_valid && mean_v != v))
            {
                inexact = true;
                break;
            }

            if (step > 0)
            {
                wlearners.emplace_back(nullptr);
            }
            hist.push_back(es_step_t{mean_v, mean_t});
            const auto accepted_before = ref.accepted;
            const bool r_lib           = es.done(values, train, valid, wlearners, eps, patience);
            const bool r_ref = ref.step(mean_t, mean_v, has_valid, wlearners.size(), values.data(),
                                        static_cast<size_t>(values.size()), eps, patience);
            if (ref.accepted > accepted_before)
            {
                ++tot.accepted_steps;
                best_level = level;
            }
            else
            {
                ++tot.rejected_steps;
            }
            if (!es_compare(c, tot, es, ref, r_lib, r_ref, hist, has_valid, patience, eps, "random"))
            {
                stopped = true;
                break;
            }
            if (r_lib)
            {
                ++tot.stops;
                stopped = true;
            }
        }
        if (inexact)
        {
            break;
        }
        if (!hist.empty())
        {
            es_end_of_history(c, tot, ref, hist, vf::mix(c.seed, static_cast<uint64_t>(h)));
        }
        if (h == 0)
        {
            sample = es_witness(hist, has_valid, patience, eps);
            sample.kv("kind", "random").kv("optimum_round", static_cast<unsigned long long>(ref.round));
        }
    }
    flush_es_totals(c, tot);
    c.count("es_random_cases");
    if (inexact)
    {
        c.inconclusive("harness-grid-mean-inexact");
        return;
    }
    if (c.want_sample())
    {
        c.sample(sample);
    }
}

// =====================================================================================================================
// fits
// =====================================================================================================================

enum : int
{
    t_scalar  = 0,
    t_sclass2 = 1,
    t_sclass3 = 2,
    t_mclass3 = 3,
    t_struct2 = 4
};

const char* target_name(const int kind)
{
    switch (kind)
    {
    case t_scalar: return "scalar";
    case t_sclass2: return "sclass2";
    case t_sclass3: return "sclass3";
    case t_mclass3: return "mclass3";
    default: return "struct2";
    }
}

class c11_datasource_t final : public datasource_t
{
public:
    c11_datasource_t(const tensor_size_t samples, const uint64_t seed, const int target, const double missing,
                     const double noise)
        : datasource_t("c11")
        , m_samples(samples)
        , m_seed(seed)
        , m_target(target)
        , m_missing(missing)
        , m_noise(noise)
    {
    }

    rdatasource_t clone() const override { return std::make_unique<c11_datasource_t>(*this); }

    void do_load() override
    {
        vf::rng_t rng(m_seed);
        feature_t target{"y"};
        switch (m_target)
        {
        case t_scalar: target.scalar(feature_type::float64); break;
        case t_sclass2: target.sclass(2); break;
        case t_sclass3: target.sclass(3); break;
        case t_mclass3: target.mclass(3); break;
        default: target.scalar(feature_type::float64, make_dims(2, 1, 1)); break;
        }
        features_t features{feature_t{"x0"}.scalar(feature_type::float64),
                            feature_t{"x1"}.scalar(feature_type::float32),
                            feature_t{"x2"}.scalar(feature_type::int16),
                            feature_t{"x3"}.scalar(feature_type::float64),
                            feature_t{"c0"}.sclass(3),
                            feature_t{"c1"}.sclass(4),
                            feature_t{"m0"}.mclass(3),
                            target};
        resize(m_samples, features, 7U);
        const double cmissing = std::min(m_missing, 0.1);
        for (tensor_size_t s = 0; s < m_samples; ++s)
        {
            const double x0 = rng.uniform(-1.0, 1.0), x1 = rng.uniform(0.0, 3.0), x2 = std::floor(rng.uniform(0.0, 10.0));
            const double x3 = rng.normal();
            const int    c0 = static_cast<int>(rng.integer(0, 2));
            const int    c1 = static_cast<int>(rng.integer(0, 3));
            if (!rng.chance(m_missing))
            {
                set(s, 0, x0);
            }
            if (!rng.chance(m_missing))
            {
                set(s, 1, x1);
            }
            if (!rng.chance(m_missing))
            {
                set(s, 2, static_cast<int>(x2));
            }
            if (!rng.chance(m_missing))
            {
                set(s, 3, x3);
            }
            if (!rng.chance(cmissing))
            {
                set(s, 4, c0);
            }
            if (!rng.chance(cmissing))
            {
                set(s, 5, c1);
            }
            tensor_mem_t<int8_t, 1> hits(3);
            for (int k = 0; k < 3; ++k)
            {
                hits(k) = static_cast<int8_t>(rng.integer(0, 1));
            }
            if (!rng.chance(cmissing))
            {
                set(s, 6, hits);
            }
            const double y = 0.7 * x0 - 0.2 * x1 + 0.11 * x3 * x3 + (c0 == 1 ? 0.5 : -0.1) + 0.05 * x2 * (c1 == 2 ? 1.0 : 0.0) +
                             m_noise * rng.uniform(-1.0, 1.0);
            const double z = -0.5 * y + 0.3 * x0 * x0 + (hits(0) != 0 ? 0.2 : 0.0) + m_noise * rng.uniform(-1.0, 1.0);
            switch (m_target)
            {
            case t_scalar: set(s, 7, y); break;
            case t_sclass2: set(s, 7, y > 0.1 ? 1 : 0); break;
            case t_sclass3: set(s, 7, y < -0.2 ? 0 : (y < 0.4 ? 1 : 2)); break;
            case t_mclass3:
            {
                tensor_mem_t<int8_t, 1> labels(3);
                labels(0) = static_cast<int8_t>(y > 0.1 ? 1 : 0);
                labels(1) = static_cast<int8_t>(z > 0.0 ? 1 : 0);
                labels(2) = static_cast<int8_t>(x0 > 0.0 ? 1 : 0);
                set(s, 7, labels);
                break;
            }
            default:
            {
                tensor_mem_t<double, 3> t(2, 1, 1);
                t(0, 0, 0) = y;
                t(1, 0, 0) = z;
                set(s, 7, t);
                break;
            }
            }
        }
    }

private:
    tensor_size_t m_samples;
    uint64_t      m_seed;
    int           m_target;
    double        m_missing;
    double        m_noise;
};

// ---- reference statistics --------------------------------------------------------------------------------------------
const char* const stat_names[12] = {"mean", "stdev", "count", "per01", "per05", "per10", "per20", "per50", "per80", "per90", "per95", "per99"};

struct ref_stats_t
{
    double v[12]{};
    double ex2{0};     ///< mean of squares (scale of the rounding noise of the library's one-pass variance)
    double var{0};     ///< population variance (two passes, long double)
    bool   finite{true};
};

double ref_percentile(const std::vector<double>& sorted, const double p)
{
    const auto   n   = static_cast<double>(sorted.size());
    const double pos = p * (n - 1.0) / 100.0;
    const auto   lo  = static_cast<size_t>(std::floor(pos));
    const auto   hi  = static_cast<size_t>(std::ceil(pos));
    return lo == hi ? sorted[lo] : (sorted[lo] + sorted[hi]) / 2;
}

ref_stats_t make_ref_stats(std::vector<double> values)
{
    ref_stats_t r;
    const auto  n = values.size();
    for (const auto x : values)
    {
        // beyond 1e150 the squares overflow: the library's variance (mean of squares - squared mean) is inf - inf
        r.finite = r.finite && std::isfinite(x) && std::fabs(x) < 1e150;
    }
    if (!r.finite || n == 0)
    {
        r.finite = false;
        return r;
    }
    std::sort(values.begin(), values.end());
    long double sum = 0, sq = 0;
    for (const auto x : values)
    {
        sum += x;
        sq += static_cast<long double>(x) * x;
    }
    const long double mean = sum / static_cast<long double>(n);
    long double       var  = 0;
    for (const auto x : values)
    {
        var += (x - mean) * (x - mean);
    }
    var /= static_cast<long double>(n);
    r.var = static_cast<double>(var);
    r.ex2 = static_cast<double>(sq / static_cast<long double>(n));
    r.v[0] = static_cast<double>(mean);
    // the library's definition (tensor_t::stdev): sqrt(population variance / (n - 1)), 0 for a single value
    r.v[1] = n > 1 ? std::sqrt(static_cast<double>(var / static_cast<long double>(n - 1))) : 0.0;
    r.v[2] = static_cast<double>(n);
    const double pers[9] = {1, 5, 10, 20, 50, 80, 90, 95, 99};
    for (int i = 0; i < 9; ++i)
    {
        r.v[3 + i] = ref_percentile(values, pers[i]);
    }
    return r;
}

void stats_to_array(const ml::stats_t& s, double* out)
{
    const double a[12] = {s.m_mean, s.m_stdev, s.m_count, s.m_per01, s.m_per05, s.m_per10,
                          s.m_per20, s.m_per50, s.m_per80, s.m_per90, s.m_per95, s.m_per99};
    std::copy(a, a + 12, out);
}

///
/// \brief index of the first of the 12 statistics that differs from the reference (-1: all agree).
///
int first_stat_mismatch(const double* got, const ref_stats_t& ref)
{
    const auto n = ref.v[2];
    for (int i = 0; i < 12; ++i)
    {
        const double g = got[i], e = ref.v[i];
        bool         ok = false;
        if (i == 1)
        {
            // one-pass variance E[x^2] - mean^2: absolute rounding noise ~ n * eps * E[x^2] on the variance
            // (the deviation is 1-Lipschitz in the per-sample values, so the common 1e-9 slack applies to it as well)
            if (std::isfinite(g) && g >= 0.0)
            {
                const double var_got = g * g * (n > 1 ? n - 1 : 1.0);
                ok                   = std::fabs(var_got - ref.var) <= 1e-12 * ref.ex2 + 1e-9 * ref.var ||
                     std::fabs(g - e) <= 1e-9 * (1.0 + std::fabs(e));
            }
        }
        else if (i == 2)
        {
            ok = g == e;
        }
        else
        {
            ok = std::fabs(g - e) <= 1e-9 * (1.0 + std::fabs(e));
        }
        if (!ok)
        {
            return i;
        }
    }
    return -1;
}

struct evaluation_t
{
    std::vector<double> errors, losses;
    tensor4d_t          outputs;
};

struct fit_ctx_t
{
    vf::ctx_t&       c;
    const dataset_t& dataset;
    const loss_t&    loss;
    bool             classification{false};
    std::string      family;
    std::string      desc;
    int64_t          nonfinite{0};
    int64_t          borderline{0};
    int64_t          mismatches{0};
};

void evaluate_outputs(const fit_ctx_t& f, const indices_t& idx, const tensor4d_t& outputs, std::vector<double>& errors,
                      std::vector<double>& losses)
{
    tensor4d_t tbuf;
    const auto targets = f.dataset.targets(idx, tbuf);
    tensor1d_t e(idx.size()), l(idx.size());
    f.loss.error(targets, outputs, e.tensor());
    f.loss.value(targets, outputs, l.tensor());
    errors.assign(e.begin(), e.end());
    losses.assign(l.begin(), l.end());
}

evaluation_t evaluate_outputs(const fit_ctx_t& f, const indices_t& idx, tensor4d_t outputs)
{
    evaluation_t ev;
    evaluate_outputs(f, idx, outputs, ev.errors, ev.losses);
    ev.outputs = std::move(outputs);
    return ev;
}

///
/// \brief a classification error is a step function of the outputs: when the recomputed 0/1 errors change under a
///     perturbation of the outputs far below the comparison tolerance, a mismatch cannot be attributed to the library.
///
bool borderline_errors(const fit_ctx_t& f, const indices_t& idx, const evaluation_t& ev)
{
    for (const double scale : {1.0 + 1e-11, 1.0 - 1e-11})
    {
        for (const double shift : {1e-11, -1e-11, 0.0})
        {
            tensor4d_t out = ev.outputs;
            for (tensor_size_t i = 0; i < out.size(); ++i)
            {
                // perturb every second component differently so that ties between components are broken both ways
                out.data()[i] = out.data()[i] * scale + ((i % 2) == 0 ? shift : -shift);
            }
            std::vector<double> e, l;
            evaluate_outputs(f, idx, out, e, l);
            if (e != ev.errors)
            {
                return true;
            }
        }
    }
    return false;
}

///
/// \brief compare one stored 12-statistics slot with the statistics of the recomputed per-sample values.
///
void compare_slot(fit_ctx_t& f, const char* clause, const std::string& object, const ml::stats_t& stored,
                  const std::vector<double>& values, const bool is_errors, const indices_t& idx, const evaluation_t& ev,
                  const vf::json_t& where)
{
    auto& c = f.c;
    const auto ref = make_ref_stats(values);
    if (!ref.finite)
    {
        ++f.nonfinite;
        c.count("slots_skipped_nonfinite_or_overflowing_values");
        return;
    }
    c.count(std::string("clause_") + clause);
    c.count("stat_values_compared", 12);
    double got[12];
    stats_to_array(stored, got);
    const int bad = first_stat_mismatch(got, ref);
    if (bad < 0)
    {
        return;
    }
    if (is_errors && f.classification && bad != 2 && borderline_errors(f, idx, ev))
    {
        ++f.borderline;
        c.count("slots_skipped_borderline_classification");
        return;
    }
    ++f.mismatches;
    if (f.mismatches > 4)
    {
        c.count("mismatches_not_printed");
        return;
    }
    vf::json_t j = where;
    j.kv("statistic", stat_names[bad]).kv("stored", got[bad]).kv("recomputed", ref.v[bad]);
    j.arr("stored_all", got, 12).arr("recomputed_all", ref.v, 12);
    j.kv("samples", static_cast<long long>(values.size())).kv("config", f.desc);
    std::string key = std::string("C11|") + clause + "|" + f.family + "|" + object;
    if (bad == 1 && std::isnan(got[1]) && ref.var <= 1e-12 * ref.ex2)
    {
        // one defect, one key: the one-pass variance of (nearly) constant values came out negative, sqrt gave NaN
        key = "C11|stdev-nan|near-constant-values";
        j.kv("clause", clause).kv("family", f.family).kv("slot", object);
    }
    else if (bad == 1 && !std::isfinite(got[1]))
    {
        key += "|stdev-not-finite";
    }
    c.violation(key, j);
}

// ---- predictions recomputed by the harness ---------------------------------------------------------------------------
tensor4d_t predict_bias_plus_wlearners(const dataset_t& dataset, const indices_t& idx, const tensor1d_t& bias,
                                       const rwlearners_t& wlearners)
{
    tensor4d_t out(cat_dims(idx.size(), dataset.target_dims()));
    const auto tsize = bias.size();
    for (tensor_size_t i = 0; i < idx.size(); ++i)
    {
        for (tensor_size_t k = 0; k < tsize; ++k)
        {
            out.data()[i * tsize + k] = bias(k);
        }
    }
    tensor4d_t buf(out.dims());
    for (const auto& wlearner : wlearners)
    {
        buf.zero();
        wlearner->predict(dataset, idx, buf.tensor());
        for (tensor_size_t j = 0; j < out.size(); ++j)
        {
            out.data()[j] += buf.data()[j];
        }
    }
    return out;
}

tensor4d_t predict_linear(const dataset_t& dataset, const indices_t& idx, const tensor2d_t& weights, const tensor1d_t& bias)
{
    tensor2d_t fbuf;
    const auto flat  = dataset.flatten(idx, fbuf);
    const auto tsize = bias.size();
    const auto isize = flat.size<1>();
    tensor4d_t out(cat_dims(idx.size(), dataset.target_dims()));
    for (tensor_size_t i = 0; i < idx.size(); ++i)
    {
        for (tensor_size_t k = 0; k < tsize; ++k)
        {
            long double acc = 0;
            for (tensor_size_t col = 0; col < isize; ++col)
            {
                const double x = flat(i, col);
                // missing values enter dense models as zeros
                acc += static_cast<long double>(weights(k, col)) * (std::isfinite(x) ? x : 0.0);
            }
            out.data()[i * tsize + k] = static_cast<double>(acc + static_cast<long double>(bias(k)));
        }
    }
    return out;
}

double max_abs(const tensor4d_t& t)
{
    double m = 0;
    for (tensor_size_t i = 0; i < t.size(); ++i)
    {
        if (std::isfinite(t.data()[i]))
        {
            m = std::max(m, std::fabs(t.data()[i]));
        }
    }
    return m;
}

/// \brief largest difference relative to max(1, scale); +inf when the non-finite patterns differ
double rel_diff(const tensor4d_t& a, const tensor4d_t& b)
{
    if (a.size() != b.size())
    {
        return std::numeric_limits<double>::infinity();
    }
    const double scale = std::max(1.0, std::max(max_abs(a), max_abs(b)));
    double       worst = 0;
    for (tensor_size_t i = 0; i < a.size(); ++i)
    {
        const double x = a.data()[i], y = b.data()[i];
        if (!std::isfinite(x) || !std::isfinite(y))
        {
            if (!((std::isnan(x) && std::isnan(y)) || x == y))
            {
                return std::numeric_limits<double>::infinity();
            }
            continue;
        }
        worst = std::max(worst, std::fabs(x - y) / scale);
    }
    return worst;
}

indices_t to_indices(const std::vector<tensor_size_t>& v)
{
    indices_t idx(static_cast<tensor_size_t>(v.size()));
    for (size_t i = 0; i < v.size(); ++i)
    {
        idx(static_cast<tensor_size_t>(i)) = v[i];
    }
    return idx;
}

vf::json_t slot_where(const tensor_size_t trial, const tensor_size_t fold, const char* split, const char* kind)
{
    vf::json_t j;
    j.kv("trial", static_cast<long long>(trial)).kv("fold", static_cast<long long>(fold)).kv("split", split).kv("values", kind);
    return j;
}

struct slot_summary_t
{
    std::vector<double> train_loss_means;
    bool                nontrivial{false};
};

///
/// \brief compare the four stored slots of (trial, fold) with the stored fold model's recomputed predictions.
///
void compare_fold(fit_ctx_t& f, const ml::result_t& result, const tensor_size_t trial, const tensor_size_t fold,
                  const indices_t& train, const indices_t& valid, const evaluation_t& tr, const evaluation_t& vd)
{
    compare_slot(f, "fold_stats", "train-errors", result.stats(trial, fold, ml::split_type::train, ml::value_type::errors), tr.errors,
                 true, train, tr, slot_where(trial, fold, "train", "errors"));
    compare_slot(f, "fold_stats", "train-losses", result.stats(trial, fold, ml::split_type::train, ml::value_type::losses), tr.losses,
                 false, train, tr, slot_where(trial, fold, "train", "losses"));
    compare_slot(f, "fold_stats", "valid-errors", result.stats(trial, fold, ml::split_type::valid, ml::value_type::errors), vd.errors,
                 true, valid, vd, slot_where(trial, fold, "valid", "errors"));
    compare_slot(f, "fold_stats", "valid-losses", result.stats(trial, fold, ml::split_type::valid, ml::value_type::losses), vd.losses,
                 false, valid, vd, slot_where(trial, fold, "valid", "losses"));
}

double mean_of(const std::vector<double>& v)
{
    long double s = 0;
    for (const auto x : v)
    {
        s += x;
    }
    return v.empty() ? 0.0 : static_cast<double>(s / static_cast<long double>(v.size()));
}

bool all_finite(const std::vector<double>& v)
{
    return std::all_of(v.begin(), v.end(), [](const double x) { return std::isfinite(x); });
}

struct setup_t
{
    tensor_size_t n{0};
    int           target{0};
    double        missing{0}, noise{0};
    uint64_t      dseed{0};
    size_t        pool{1};
    std::string   loss_id;
};

std::vector<std::string> losses_for(const int target, const bool gboost)
{
    switch (target)
    {
    case t_scalar:
    case t_struct2: return {"mse", "mae", "cauchy", "pinball", "mse"};
    case t_mclass3:
        return gboost ? std::vector<std::string>{"m-logistic", "m-hinge", "m-squared-hinge", "m-savage", "m-tangent"}
                      : std::vector<std::string>{"m-logistic", "m-hinge", "m-squared-hinge", "m-savage", "m-tangent", "m-exponential"};
    default:
        return gboost ? std::vector<std::string>{"s-classnll", "s-logistic", "s-hinge", "s-squared-hinge", "s-savage", "s-tangent"}
                      : std::vector<std::string>{"s-classnll", "s-logistic", "s-hinge", "s-squared-hinge", "s-savage", "s-tangent",
                                                 "s-exponential"};
    }
}

void run_fit(vf::ctx_t& c)
{
    auto&      rng    = c.rng;
    const bool gboost = c.args.get("family").empty() ? (c.index % 2) == 0 : c.args.get("family") == "gboost";

    nano::verif::rng_seed().store(c.seed | 1U);

    setup_t s;
    s.n       = rng.integer(40, 100);
    s.target  = static_cast<int>(rng.pick(std::vector<int64_t>{t_scalar, t_scalar, t_sclass2, t_sclass2, t_sclass3, t_mclass3, t_struct2}));
    s.missing = rng.pick(std::vector<double>{0.0, 0.05, 0.15});
    s.noise   = rng.pick(std::vector<double>{0.05, 0.3, 1.0});
    s.dseed   = rng.next();
    s.pool    = static_cast<size_t>(rng.pick(std::vector<int64_t>{1, 1, 2, 4}));
    s.loss_id = rng.pick(losses_for(s.target, gboost));

    // the tuning pool of ml::tune and the dataset's own pool (sizes are clamped at construction)
    nano::verif::pool_max_size().store(s.pool, std::memory_order_relaxed);

    auto ds = c11_datasource_t{s.n, s.dseed, s.target, s.missing, s.noise};
    ds.load();
    auto dataset = dataset_t{ds, static_cast<size_t>(rng.integer(1, 2))};
    dataset.add<scalar_identity_generator_t>();
    dataset.add<sclass_identity_generator_t>();
    dataset.add<mclass_identity_generator_t>();

    // fit on all samples or on a subset (so that sample indices and positions differ)
    std::vector<tensor_size_t> sub;
    const bool                 subset = rng.chance(0.5);
    for (tensor_size_t i = 0; i < s.n; ++i)
    {
        if (!subset || !rng.chance(0.2))
        {
            sub.push_back(i);
        }
    }
    const auto samples = to_indices(sub);

    const auto loss = loss_t::all().get(s.loss_id);
    if (s.loss_id == "pinball")
    {
        loss->parameter("loss::pinball::alpha") = rng.pick(std::vector<double>{0.1, 0.5, 0.9});
    }

    auto       params        = ml::params_t{};
    const auto splitter_id   = rng.chance(0.6) ? "k-fold" : "random";
    auto       splitter      = splitter_t::all().get(splitter_id);
    const auto folds         = rng.integer(2, 5);
    const auto splitter_seed = rng.integer(0, 1024);
    splitter->parameter("splitter::folds") = folds;
    splitter->parameter("splitter::seed")  = splitter_seed;
    if (std::string(splitter_id) == "random")
    {
        splitter->parameter("splitter::random::train_per") = rng.integer(50, 90);
    }
    params.splitter(*splitter);
    const auto tuner_id = rng.chance(0.5) ? "local-search" : "surrogate";
    auto       tuner    = tuner_t::all().get(tuner_id);
    tuner->parameter("tuner::max_evals") = rng.integer(10, 16);
    params.tuner(*tuner);
    auto solver = solver_t::all().get("lbfgs");
    solver->parameter("solver::max_evals") = rng.integer(40, 200);
    solver->parameter("solver::epsilon")   = rng.loguniform(1e-8, 1e-4);
    params.solver(*solver);
    params.logger(make_null_logger());

    std::string desc = std::string("target=") + target_name(s.target) + " n=" + std::to_string(s.n) + " fit_samples=" +
                       std::to_string(samples.size()) + " missing=" + vf::json_t::num(s.missing) + " noise=" + vf::json_t::num(s.noise) +
                       " loss=" + s.loss_id + " splitter=" + splitter_id + " folds=" + std::to_string(folds) +
                       " splitter_seed=" + std::to_string(splitter_seed) + " tuner=" + tuner_id + " pool=" + std::to_string(s.pool) + " ";

    // the folds, re-derived with the same seeded splitter
    const auto splits = splitter->split(samples);

    fit_ctx_t f{c, dataset, *loss, s.target == t_sclass2 || s.target == t_sclass3 || s.target == t_mclass3,
                gboost ? "gboost" : "linear", "", 0, 0, 0};

    bool   nontrivial = false;
    size_t trials_seen = 0;

    if (gboost)
    {
        auto       model      = gboost_model_t{};
        const auto max_rounds = rng.integer(10, 24);
        const auto patience   = rng.integer(1, 5);
        const auto epsilon    = rng.loguniform(1e-8, 1e-2);
        const auto shrinkage  = rng.pick(std::vector<gboost_shrinkage>{gboost_shrinkage::off, gboost_shrinkage::off, gboost_shrinkage::global, gboost_shrinkage::global, gboost_shrinkage::local});
        const auto subsample  = rng.pick(std::vector<gboost_subsample>{gboost_subsample::off, gboost_subsample::off, gboost_subsample::subsample, gboost_subsample::bootstrap,
                                                                        gboost_subsample::wei_loss_bootstrap, gboost_subsample::wei_grad_bootstrap});
        const auto wscale     = rng.pick(std::vector<gboost_wscale>{gboost_wscale::gboost, gboost_wscale::tboost});
        model.parameter("gboost::max_rounds") = max_rounds;
        model.parameter("gboost::patience")   = patience;
        model.parameter("gboost::epsilon")    = epsilon;
        model.parameter("gboost::shrinkage")  = shrinkage;
        model.parameter("gboost::subsample")  = subsample;
        model.parameter("gboost::wscale")     = wscale;
        model.parameter("gboost::seed")       = rng.integer(0, 1024);
        model.parameter("gboost::batch")      = rng.integer(10, 200);
        if (subsample != gboost_subsample::off)
        {
            model.parameter("gboost::subsample_ratio") = rng.uniform(0.5, 1.0);
        }
        const auto   all_ids = std::vector<std::string>{"affine", "stump", "hinge", "dense-table", "kbest-table", "ksplit-table", "dstep-table", "dtree"};
        rwlearners_t protos;
        std::string  proto_desc;
        bool         mergeable = false;
        const double p_proto   = rng.pick(std::vector<double>{0.2, 0.4, 0.6});
        for (int attempt = 0; attempt < 8 && protos.empty(); ++attempt)
        {
            for (const auto& id : all_ids)
            {
                if (rng.chance(p_proto))
                {
                    protos.emplace_back(wlearner_t::all().get(id));
                    proto_desc += id + ",";
                    mergeable = mergeable || (id != "stump" && id != "hinge" && id != "dtree");
                }
            }
        }
        if (protos.empty())
        {
            protos.emplace_back(wlearner_t::all().get("stump"));
            proto_desc = "stump,";
        }
        model.prototypes(std::move(protos));
        desc += "max_rounds=" + std::to_string(max_rounds) + " patience=" + std::to_string(patience) + " epsilon=" + vf::json_t::num(epsilon) +
                " shrinkage=" + scat(shrinkage) + " subsample=" + scat(subsample) + " wscale=" + scat(wscale) + " protos=" + proto_desc;
        f.desc = desc;

        // history: in a third of the cases the SAME model object has been fitted before (on the first half of the
        // samples); everything below is judged on the state after the second fit - nothing of the first one may survive
        if (rng.chance(0.33) && samples.size() >= 20)
        {
            try
            {
                const indices_t warmup = samples.slice(0, samples.size() / 2);
                model.fit(dataset, warmup, *loss, params);
                c.count("gboost_refits_of_a_fitted_object");
            }
            catch (const std::exception&)
            {
                c.count("gboost_warmup_fit_threw");
            }
        }
        ml::result_t result;
        try
        {
            result = model.fit(dataset, samples, *loss, params);
        }
        catch (const std::exception& e)
        {
            nano::verif::pool_max_size().store(0, std::memory_order_relaxed);
            c.count("fit_threw");
            c.inconclusive("gboost-fit-threw");
            return;
        }
        c.count("gboost_fits");
        trials_seen = static_cast<size_t>(result.trials());

        c.count("clause_result_shape");
        if (result.folds() != static_cast<tensor_size_t>(splits.size()) || result.trials() < 1)
        {
            c.violation("C11|result-shape|gboost",
                        vf::json_t().kv("folds", static_cast<long long>(result.folds())).kv("expected_folds", static_cast<long long>(splits.size())).kv("config", desc));
            nano::verif::pool_max_size().store(0, std::memory_order_relaxed);
            return;
        }

        std::vector<double> trial_values(static_cast<size_t>(result.trials()), 0.0);
        bool                trial_values_finite = true;
        for (tensor_size_t trial = 0; trial < result.trials(); ++trial)
        {
            long double sum_valid_error = 0;
            for (tensor_size_t fold = 0; fold < result.folds(); ++fold)
            {
                const auto* const pg = std::any_cast<gboost::result_t>(&result.extra(trial, fold));
                if (pg == nullptr)
                {
                    c.violation("C11|extra-missing|gboost", slot_where(trial, fold, "-", "-").kv("config", desc));
                    continue;
                }
                c.count("gboost_fold_models");
                const auto& [train, valid] = splits[static_cast<size_t>(fold)];
                const auto  rows           = pg->m_statistics.size<0>();
                const auto  round          = rows - 1; // the reported optimum round
                const auto  kept           = static_cast<tensor_size_t>(pg->m_wlearners.size());

                // the reported round is the number of weak learners kept (table/affine learners may have been merged)
                c.count("clause_kept_wlearners");
                if (rows < 1 || kept > round || (!mergeable && kept != round) || (round > 0 && kept == 0) || round > max_rounds)
                {
                    c.violation("C11|kept-wlearners|gboost",
                                slot_where(trial, fold, "-", "-").kv("reported_round", static_cast<long long>(round)).kv("kept_wlearners", static_cast<long long>(kept))
                                    .kv("mergeable_pool", mergeable).kv("config", desc));
                }

                // stored statistics = statistics of the stored fold model on the fold's samples
                const auto tr = evaluate_outputs(f, train, predict_bias_plus_wlearners(dataset, train, pg->m_bias, pg->m_wlearners));
                const auto vd = evaluate_outputs(f, valid, predict_bias_plus_wlearners(dataset, valid, pg->m_bias, pg->m_wlearners));
                compare_fold(f, result, trial, fold, train, valid, tr, vd);
                sum_valid_error += result.stats(trial, fold, ml::split_type::valid, ml::value_type::errors).m_mean;

                if (rows >= 1 && pg->m_statistics.size<1>() == 8 && all_finite(tr.errors) && all_finite(tr.losses) && all_finite(vd.errors) && all_finite(vd.losses))
                {
                    // the statistics row of the reported round holds that round's means
                    const double means[4] = {mean_of(tr.errors), mean_of(tr.losses), mean_of(vd.errors), mean_of(vd.losses)};
                    c.count("clause_round_row");
                    for (int k = 0; k < 4; ++k)
                    {
                        const double got = pg->m_statistics(round, k);
                        if (!(std::fabs(got - means[k]) <= 1e-9 * (1.0 + std::fabs(means[k]))))
                        {
                            const bool is_err = (k % 2) == 0;
                            if (is_err && f.classification && borderline_errors(f, k == 0 ? train : valid, k == 0 ? tr : vd))
                            {
                                c.count("slots_skipped_borderline_classification");
                                continue;
                            }
                            c.violation("C11|round-row|gboost",
                                        slot_where(trial, fold, k < 2 ? "train" : "valid", is_err ? "errors" : "losses")
                                            .kv("reported_round", static_cast<long long>(round)).kv("row_value", got).kv("recomputed_mean", means[k]).kv("config", desc));
                            break;
                        }
                    }
                }

                // the recorded (training, validation) error history up to the reported round, replayed through the reference
                // monitor: no stop before the reported round, and the reported round is an accepted improvement
                if (rows >= 1 && pg->m_statistics.size<1>() == 8)
                {
                    ref_monitor_t ref;
                    bool          ok = true, finite = true;
                    tensor_size_t r  = 0;
                    for (; r < rows && ok; ++r)
                    {
                        const double te = pg->m_statistics(r, 0), ve = pg->m_statistics(r, 2);
                        finite          = finite && std::isfinite(te) && std::isfinite(ve);
                        const double dummy = 0;
                        const bool   stop  = ref.step(te, ve, true, static_cast<size_t>(r), &dummy, 1, epsilon, static_cast<size_t>(patience));
                        ok                 = !(stop && r + 1 < rows);
                    }
                    if (finite)
                    {
                        c.count("clause_history_prefix");
                        if (!ok || ref.round != static_cast<size_t>(round))
                        {
                            std::vector<double> te, ve;
                            for (tensor_size_t q = 0; q < rows; ++q)
                            {
                                te.push_back(pg->m_statistics(q, 0));
                                ve.push_back(pg->m_statistics(q, 2));
                            }
                            c.violation("C11|history-prefix|gboost",
                                        slot_where(trial, fold, "-", "-").kv("reported_round", static_cast<long long>(round))
                                            .kv("reference_round", static_cast<unsigned long long>(ref.round)).kv("reference_stopped_early", !ok)
                                            .arr("training_error_rows", te.data(), te.size()).arr("validation_error_rows", ve.data(), ve.size())
                                            .kv("epsilon", epsilon).kv("patience", static_cast<long long>(patience)).kv("config", desc));
                        }
                        // non-triviality: >= 2 kept rounds, and the fit went on (or could have) after the optimum
                        if (round >= 2 && round < max_rounds && pg->m_statistics(round, 0) >= epsilon)
                        {
                            nontrivial = true;
                            c.count("gboost_fold_models_nontrivial");
                        }
                    }
                }
            }
            trial_values[static_cast<size_t>(trial)] = static_cast<double>(sum_valid_error / static_cast<long double>(result.folds()));
            trial_values_finite                     = trial_values_finite && std::isfinite(trial_values[static_cast<size_t>(trial)]);
        }

        // the boosting model's prediction is its bias plus the sum of its weak learners' predictions
        const auto fin_lib = model.predict(dataset, samples);
        const auto fin_sum = predict_bias_plus_wlearners(dataset, samples, model.bias(), model.wlearners());
        c.count("clause_bias_plus_wlearners");
        if (const auto d = rel_diff(fin_lib, fin_sum); !(d <= 1e-12))
        {
            c.violation("C11|bias-plus-wlearners|gboost", vf::json_t().kv("relative_difference", d).kv("wlearners", static_cast<long long>(model.wlearners().size())).kv("config", desc));
        }

        // the final model predicts the average of the fold models of the optimum trial (smallest mean validation error)
        if (trial_values_finite)
        {
            const double best = *std::min_element(trial_values.begin(), trial_values.end());
            double       closest = std::numeric_limits<double>::infinity();
            long long    first_candidate = -1, candidates = 0;
            for (tensor_size_t trial = 0; trial < result.trials(); ++trial)
            {
                if (!(trial_values[static_cast<size_t>(trial)] <= best + 1e-12 * (1.0 + std::fabs(best))))
                {
                    continue;
                }
                ++candidates;
                first_candidate = first_candidate < 0 ? trial : first_candidate;
                tensor4d_t avg(fin_lib.dims());
                avg.zero();
                bool have = true;
                for (tensor_size_t fold = 0; fold < result.folds(); ++fold)
                {
                    const auto* const pg = std::any_cast<gboost::result_t>(&result.extra(trial, fold));
                    if (pg == nullptr)
                    {
                        have = false;
                        break;
                    }
                    const auto out = predict_bias_plus_wlearners(dataset, samples, pg->m_bias, pg->m_wlearners);
                    for (tensor_size_t j = 0; j < avg.size(); ++j)
                    {
                        avg.data()[j] += out.data()[j];
                    }
                }
                if (!have)
                {
                    continue;
                }
                for (tensor_size_t j = 0; j < avg.size(); ++j)
                {
                    avg.data()[j] /= static_cast<double>(result.folds());
                }
                closest = std::min(closest, rel_diff(fin_lib, avg));
                if (closest <= 1e-9)
                {
                    break;
                }
            }
            c.count("clause_fold_average");
            if (!(closest <= 1e-9))
            {
                c.violation("C11|fold-average|gboost",
                            vf::json_t().kv("relative_difference", closest).kv("optimum_trial", first_candidate).kv("tied_candidates", candidates)
                                .kv("trials", static_cast<long long>(result.trials())).kv("folds", static_cast<long long>(result.folds()))
                                .arr("trial_mean_validation_errors", trial_values.data(), trial_values.size()).kv("config", desc));
            }
        }
        else
        {
            c.count("fold_average_skipped_nonfinite");
        }

        // final statistics = statistics of the final model on the fitting samples
        const auto fin = evaluate_outputs(f, samples, fin_sum);
        compare_slot(f, "final_stats", "errors", result.stats(ml::value_type::errors), fin.errors, true, samples, fin, vf::json_t().kv("values", "errors"));
        compare_slot(f, "final_stats", "losses", result.stats(ml::value_type::losses), fin.losses, false, samples, fin, vf::json_t().kv("values", "losses"));

        // learner_t::evaluate agrees with the recomputation
        const auto ev = model.evaluate(dataset, samples, *loss);
        c.count("clause_evaluate");
        bool same = ev.size<0>() == 2 && ev.size<1>() == samples.size();
        for (tensor_size_t i = 0; same && i < samples.size(); ++i)
        {
            const double e0 = ev(0, i), e1 = ev(1, i), r0 = fin.errors[static_cast<size_t>(i)], r1 = fin.losses[static_cast<size_t>(i)];
            same = ((std::isnan(e0) && std::isnan(r0)) || std::fabs(e0 - r0) <= 1e-9 * (1 + std::fabs(r0)) || e0 == r0) &&
                   ((std::isnan(e1) && std::isnan(r1)) || std::fabs(e1 - r1) <= 1e-9 * (1 + std::fabs(r1)) || e1 == r1);
        }
        if (!same && !(f.classification && borderline_errors(f, samples, fin)))
        {
            c.violation("C11|evaluate|gboost", vf::json_t().kv("config", desc));
        }

        if (c.want_sample())
        {
            c.sample(vf::json_t().kv("family", "gboost").kv("config", desc).kv("trials", static_cast<long long>(result.trials()))
                         .kv("final_wlearners", static_cast<long long>(model.wlearners().size())).kv("nontrivial", nontrivial));
        }
    }
    else
    {
        const auto ids = std::vector<std::string>{"ordinary", "lasso", "ridge", "elastic_net"};
        const auto id  = rng.pick(ids);
        auto       model = linear_t::all().get(id);
        const auto scaling = rng.pick(std::vector<scaling_type>{scaling_type::none, scaling_type::mean, scaling_type::minmax, scaling_type::standard});
        model->parameter("linear::scaling") = scaling;
        model->parameter("linear::batch")   = rng.integer(10, 120);
        desc += "linear=" + id + " scaling=" + scat(scaling) + " ";
        f.desc = desc;

        ml::result_t result;
        if (rng.chance(0.33) && samples.size() >= 20)
        {
            try
            {
                const indices_t warmup = samples.slice(0, samples.size() / 2);
                model->fit(dataset, warmup, *loss, params);
                c.count("linear_refits_of_a_fitted_object");
            }
            catch (const std::exception&)
            {
                c.count("linear_warmup_fit_threw");
            }
        }
        try
        {
            result = model->fit(dataset, samples, *loss, params);
        }
        catch (const std::exception& e)
        {
            nano::verif::pool_max_size().store(0, std::memory_order_relaxed);
            c.count("fit_threw");
            c.inconclusive("linear-fit-threw");
            return;
        }
        c.count("linear_fits");
        trials_seen = static_cast<size_t>(result.trials());

        c.count("clause_result_shape");
        if (result.folds() != static_cast<tensor_size_t>(splits.size()) || result.trials() < 1)
        {
            c.violation("C11|result-shape|linear",
                        vf::json_t().kv("folds", static_cast<long long>(result.folds())).kv("expected_folds", static_cast<long long>(splits.size())).kv("config", desc));
            nano::verif::pool_max_size().store(0, std::memory_order_relaxed);
            return;
        }

        std::vector<double> slot_means;
        for (tensor_size_t trial = 0; trial < result.trials(); ++trial)
        {
            for (tensor_size_t fold = 0; fold < result.folds(); ++fold)
            {
                const auto* const pl = std::any_cast<linear::result_t>(&result.extra(trial, fold));
                if (pl == nullptr)
                {
                    c.violation("C11|extra-missing|linear", slot_where(trial, fold, "-", "-").kv("config", desc));
                    continue;
                }
                c.count("linear_fold_models");
                const auto& [train, valid] = splits[static_cast<size_t>(fold)];
                if (pl->m_weights.size<1>() != dataset.columns() || pl->m_weights.size<0>() != pl->m_bias.size() ||
                    pl->m_bias.size() != ::nano::size(dataset.target_dims()))
                {
                    c.violation("C11|model-shape|linear", slot_where(trial, fold, "-", "-").kv("config", desc));
                    continue;
                }
                const auto tr = evaluate_outputs(f, train, predict_linear(dataset, train, pl->m_weights, pl->m_bias));
                const auto vd = evaluate_outputs(f, valid, predict_linear(dataset, valid, pl->m_weights, pl->m_bias));
                compare_fold(f, result, trial, fold, train, valid, tr, vd);
                slot_means.push_back(result.stats(trial, fold, ml::split_type::train, ml::value_type::losses).m_mean);
            }
        }
        // non-triviality: the slots are distinguishable (>= 2 different stored training-loss means), so that a model stored
        // in the wrong slot or evaluated on the wrong fold cannot go unnoticed
        std::sort(slot_means.begin(), slot_means.end());
        slot_means.erase(std::unique(slot_means.begin(), slot_means.end()), slot_means.end());
        nontrivial = slot_means.size() >= 2 && std::isfinite(slot_means.front());

        // the refit model: stored extra = the model's parameters; its prediction is W x + b with missing values as zeros
        const auto* const pr = std::any_cast<linear::result_t>(&result.extra());
        c.count("clause_refit_extra");
        if (pr == nullptr || pr->m_weights.size() != model->weights().size() || pr->m_bias.size() != model->bias().size() ||
            !std::equal(pr->m_weights.begin(), pr->m_weights.end(), model->weights().begin(),
                        [](const double a, const double b) { return a == b || (std::isnan(a) && std::isnan(b)); }) ||
            !std::equal(pr->m_bias.begin(), pr->m_bias.end(), model->bias().begin(),
                        [](const double a, const double b) { return a == b || (std::isnan(a) && std::isnan(b)); }))
        {
            c.violation("C11|refit-extra|linear", vf::json_t().kv("missing", pr == nullptr).kv("config", desc));
        }
        const auto fin_lib = model->predict(dataset, samples);
        const auto fin_own = predict_linear(dataset, samples, model->weights(), model->bias());
        c.count("clause_linear_predict");
        if (const auto d = rel_diff(fin_lib, fin_own); !(d <= 1e-9))
        {
            c.violation("C11|linear-predict|linear", vf::json_t().kv("relative_difference", d).kv("config", desc));
        }
        const auto fin = evaluate_outputs(f, samples, fin_own);
        compare_slot(f, "final_stats", "errors", result.stats(ml::value_type::errors), fin.errors, true, samples, fin, vf::json_t().kv("values", "errors"));
        compare_slot(f, "final_stats", "losses", result.stats(ml::value_type::losses), fin.losses, false, samples, fin, vf::json_t().kv("values", "losses"));

        const auto ev = model->evaluate(dataset, samples, *loss);
        c.count("clause_evaluate");
        bool same = ev.size<0>() == 2 && ev.size<1>() == samples.size();
        for (tensor_size_t i = 0; same && i < samples.size(); ++i)
        {
            const double e0 = ev(0, i), e1 = ev(1, i), r0 = fin.errors[static_cast<size_t>(i)], r1 = fin.losses[static_cast<size_t>(i)];
            same = ((std::isnan(e0) && std::isnan(r0)) || std::fabs(e0 - r0) <= 1e-9 * (1 + std::fabs(r0)) || e0 == r0) &&
                   ((std::isnan(e1) && std::isnan(r1)) || std::fabs(e1 - r1) <= 1e-9 * (1 + std::fabs(r1)) || e1 == r1);
        }
        if (!same && !(f.classification && borderline_errors(f, samples, fin)))
        {
            c.violation("C11|evaluate|linear", vf::json_t().kv("config", desc));
        }

        if (c.want_sample())
        {
            c.sample(vf::json_t().kv("family", "linear").kv("config", desc).kv("trials", static_cast<long long>(result.trials())).kv("nontrivial", nontrivial));
        }
    }

    nano::verif::pool_max_size().store(0, std::memory_order_relaxed);
    c.count("trials_total", static_cast<int64_t>(trials_seen));
    c.maxc("trials_per_fit", static_cast<int64_t>(trials_seen));
    if (trials_seen >= 2)
    {
        c.count("fits_with_tuning");
    }
    c.count(std::string("target:") + target_name(s.target));
    if (f.nonfinite > 0)
    {
        c.count("fits_with_nonfinite_values");
    }
    if (nontrivial)
    {
        c.nontrivial(vf::mix(vf::hash_str(desc.c_str()), s.dseed));
    }
}
} // namespace

int main(int argc, char** argv)
{
    const auto args = vf::parse_args(argc, argv);
    if (args.mode == "earlystop")
    {
        const auto maxlen_arg = args.get("maxlen");
        const int  maxlen     = maxlen_arg.empty() ? (args.thorough() ? 10 : 8) : std::max(1, std::atoi(maxlen_arg.c_str()));
        return vf::run(args, "C11",
                       "earlystop: cases 0..799 enumerate EVERY (training, validation) error history up to length maxlen (8 quick, 10-12 thorough) over "
                       "10 symbols (5 validation levels incl. improvement == eps and < eps, training error above/below eps) x patience 1..4 x "
                       "with/without validation samples (case = the first two symbols, all continuations explored); cases >= 800: random histories "
                       "up to length 200 on an eps/2 grid, eps = 2^-1..2^-40, patience up to 1000; a history is non-trivial when >= 2 steps were "
                       "accepted and the optimum round is before the last round; distinct by hash(history) (at most 16 hashes are listed per case, "
                       "the counter es_nontrivial_histories has the total)",
                       [&](vf::ctx_t& c)
                       {
                           if (c.index < es_exhaustive_cases)
                           {
                               earlystop_exhaustive(c, maxlen);
                           }
                           else
                           {
                               earlystop_random(c);
                           }
                       });
    }
    return vf::run(args, "C11",
                   "fit: case = one generated dataset (40..100 samples, 7 mixed features with missing values, scalar / 2-output / 2-3 class / "
                   "multi-label target) x loss x splitter (k-fold|random, 2..5 folds) x tuner x gboost (even cases: weak-learner pool, shrinkage, "
                   "subsample, wscale, max_rounds 10..24, patience 1..5, epsilon 1e-8..1e-2) or linear (odd cases: 4 regularisers x 4 scalings); "
                   "non-trivial gboost: some fold model with reported round >= 2, below max_rounds and training error >= epsilon (rounds after the "
                   "optimum were run and dropped); non-trivial linear: >= 2 distinguishable (trial, fold) slots; distinct by hash(config, dataset seed)",
                   [&](vf::ctx_t& c) { run_fit(c); });
}
