// C06 - values, gradients and convexity flags of functions, losses, constraints and ML objectives are truthful.
//
// Monitor: every object is driven through its public evaluation entry point (function_t::vgrad, loss_t::value/vgrad/error,
// nano::vgrad(constraint_t, ...)) and judged by oracles that never ask the library for the expected answer:
//   * gradient      : g(x).d against central differences of the VALUE along an arbitrary direction d, nine step sizes
//                     h in {1e-3 .. 1e-7}*max(1,|x|) plus their Richardson extrapolations over (h, h/10), minimum error,
//                     tolerance 1e-7*max(1,|f|,|g.d|).  When every estimate is off: the point is `nondiff` (not judged) if the
//                     one-sided slopes, Richardson-extrapolated to h -> 0 (which removes the curvature term c*h exactly),
//                     show a jump J > tol/2 - the statement only speaks about points of differentiability; it is a
//                     violation only if two plain central differences at steps a factor >= 3 apart agree within tol/2 (the
//                     differences have converged, any error term a*h^p is then < tol/4) and both are off by more than tol;
//                     otherwise `fd_undecided` (a curvature jump closer than the smallest step), counted, never a violation;
//   * value-mismatch: value-only call == value+gradient call, bitwise (the ML objectives run on a 1-thread dataset pool);
//   * convexity     : declared convex  => f(z) >= f(x) + g(x).(z-x)                      (key C06|convexity|...)
//     strong-convexity: declared mu > 0 => f(z) >= f(x) + g(x).(z-x) + mu/2 |z-x|^2       (key C06|strong-convexity|...)
//                     on random pairs (incl. kink points: zeros, ties, lattice points, targets) plus adversarial
//                     hill-climbing on the violation ratio from the worst random pairs, inside the box of the quantifier;
//                     tolerance 1e-10*(1+|f(x)|+|f(z)|+|g.(z-x)|+mu/2|z-x|^2);
//   * losses        : value/error/gradient of a sample are bitwise unchanged when the OTHER samples of the batch are
//                     replaced, and unchanged up to rounding (1e-12 relative: the summation order of the vectorised kernels
//                     depends on the alignment of the slice) when the sample moves to another position / is evaluated alone;
//                     value >= 0, error >= 0; 0-1 errors against the arg-max (single-label, any maximiser on exact ties),
//                     sign (binary) and per-label sign (multi-label) rules.
//
// Modes (one binary, four stages): functions | losses | constraints | ml.
#include "common/vf.h"
#include <Eigen/Dense>
#include <algorithm>
#include <nano/core/parallel.h>
#include <nano/dataset.h>
#include <nano/dataset/iterator.h>
#include <nano/function.h>
#include <nano/function/constraint.h>
#include <nano/gboost/function.h>
#include <nano/generator/elemwise_identity.h>
#include <nano/linear/function.h>
#include <nano/loss.h>
#include <nano/loss/class.h>
#include <nano/machine/cluster.h>
#include <nano/tuner/surrogate.h>
#include <set>

using namespace nano;

namespace
{
using evec = Eigen::VectorXd;
using emat = Eigen::MatrixXd;

constexpr double INF = std::numeric_limits<double>::infinity();

// ---------------------------------------------------------------------------------------------------------------------
// an evaluable object with its declared analytic properties
// ---------------------------------------------------------------------------------------------------------------------
struct object_t
{
    std::string id;   ///< stable identifier used in violation keys (type of the object, never sizes or seeds)
    std::string desc; ///< description of the instance (sizes, parameters) for witnesses
    int         n{0};
    bool        convex{false};
    bool        smooth{false};
    double      mu{0.0};             ///< declared strong-convexity coefficient
    double      mu_abs_err{0.0};     ///< rounding allowance of a coefficient the library computes with an eigen solver
    bool        has_value_only{true}; ///< the API has a value-only and a value+gradient call returning the same value
    double      box{10.0};           ///< the hill-climber stays inside [-box, box]^n (the quantifier's domain)
    evec        specials;            ///< per-coordinate kink candidates (e.g. the target of a loss); may be empty
    std::function<double(const evec&, evec*)> eval; ///< value (+ gradient when the pointer is given)
};

object_t wrap_function(const function_t& f, std::string id, std::string desc)
{
    object_t o;
    o.id     = std::move(id);
    o.desc   = std::move(desc);
    o.n      = static_cast<int>(f.size());
    o.convex = f.convex();
    o.smooth = f.smooth();
    o.mu     = f.strong_convexity();
    o.eval   = [&f](const evec& x, evec* g) -> double
    {
        const auto n = static_cast<tensor_size_t>(x.size());
        if (g != nullptr)
        {
            g->resize(x.size());
            return f.vgrad(map_tensor(x.data(), n), map_tensor(g->data(), n));
        }
        return f.vgrad(map_tensor(x.data(), n));
    };
    return o;
}

// ---------------------------------------------------------------------------------------------------------------------
// per-case bookkeeping
// ---------------------------------------------------------------------------------------------------------------------
struct pair_t
{
    evec   x, z;
    double fx{0}, fz{0}, lin{0}, q{0};
    double r0{-INF};  ///< (f(x) + g.(z-x) - f(z)) / tol0
    double rmu{-INF}; ///< (f(x) + g.(z-x) + mu/2|z-x|^2 - f(z)) / tolmu
    double dist{0};
    bool   ok{false};

    double score() const { return std::max(r0, rmu); }
};

struct tally_t
{
    std::set<std::string> reported; ///< one witness per violation key and case
    int                   fd_judged{0}, fd_nontrivial{0}, fd_nondiff{0};
    int                   pairs{0}, pairs_nontrivial{0};
    double                worst_fd{0.0};
    double                worst_cvx{0.0}; ///< largest convexity violation / tolerance of the case (<= 1: held)
    pair_t                worst0, worstmu; ///< of the object currently judged
    uint64_t              hash{1469598103934665603ULL};

    void add(const evec& v) { hash = vf::hash_bytes(v.data(), static_cast<size_t>(v.size()) * sizeof(double), hash); }

    void add(double v) { hash = vf::hash_double(v, hash); }

    void add(const std::string& s) { hash = vf::mix(hash, vf::hash_str(s.c_str())); }
};

void report(vf::ctx_t& c, tally_t& t, const std::string& key, const vf::json_t& j)
{
    if (t.reported.insert(key).second)
    {
        c.violation(key, j);
    }
}

vf::json_t describe(const object_t& o)
{
    vf::json_t j;
    j.kv("object", o.id).kv("instance", o.desc).kv("n", o.n).kv("convex", o.convex).kv("smooth", o.smooth).kv("mu", o.mu);
    return j;
}

// ---------------------------------------------------------------------------------------------------------------------
// point generators
// ---------------------------------------------------------------------------------------------------------------------
double pick_radius(vf::rng_t& rng, double lo, double hi)
{
    const auto k = rng.integer(0, 15);
    return k == 0 ? hi : (k == 1 ? lo : rng.loguniform(lo, hi));
}

evec random_point(vf::rng_t& rng, int n, double radius, bool allow_special)
{
    evec       x(n);
    const auto kind = allow_special ? rng.integer(0, 11) : 0;
    switch (kind)
    {
    case 8: // lattice point: exact ties between the pieces of max-type functions, exact zeros
    {
        const auto span = std::max<int64_t>(1, static_cast<int64_t>(std::min(radius, 4.0)));
        for (int i = 0; i < n; ++i)
        {
            x(i) = static_cast<double>(rng.integer(-span, span));
        }
        break;
    }
    case 9: // sparse point: exact zeros (kinks of |.|)
        for (int i = 0; i < n; ++i)
        {
            x(i) = rng.chance(0.5) ? 0.0 : radius * rng.uniform(-1.0, 1.0);
        }
        break;
    case 10: // equal magnitudes: ties of max_i x_i^2, |x_i|
    {
        const auto a = radius * rng.u01();
        for (int i = 0; i < n; ++i)
        {
            x(i) = rng.chance(0.5) ? a : -a;
        }
        break;
    }
    case 11: // the origin, or half-lattice
        for (int i = 0; i < n; ++i)
        {
            x(i) = rng.chance(0.5) ? 0.0 : 0.5 * static_cast<double>(rng.integer(-4, 4));
        }
        if (rng.chance(0.3))
        {
            x.setZero();
        }
        break;
    default:
        for (int i = 0; i < n; ++i)
        {
            x(i) = radius * rng.uniform(-1.0, 1.0);
        }
        break;
    }
    return x;
}

evec random_direction(vf::rng_t& rng, int n)
{
    evec       d    = evec::Zero(n);
    const auto kind = rng.integer(0, 5);
    if (kind == 0)
    {
        d(rng.integer(0, n - 1)) = rng.chance(0.5) ? 1.0 : -1.0;
        return d;
    }
    for (int i = 0; i < n; ++i)
    {
        d(i) = (kind == 1 && rng.chance(0.6)) ? 0.0 : rng.normal();
    }
    if (d.norm() < 1e-12)
    {
        d(rng.integer(0, n - 1)) = 1.0;
    }
    return d / d.norm();
}

void clamp(evec& x, double box)
{
    for (Eigen::Index i = 0; i < x.size(); ++i)
    {
        x(i) = std::min(box, std::max(-box, x(i)));
    }
}

// ---------------------------------------------------------------------------------------------------------------------
// clause: value-only == value+gradient; gradient == derivative of the value where differentiable
// ---------------------------------------------------------------------------------------------------------------------
void check_point(vf::ctx_t& c, const object_t& o, const evec& x, const evec& d, tally_t& t)
{
    evec         g;
    const double fx = o.eval(x, &g);
    if (!std::isfinite(fx) || !g.allFinite())
    {
        c.count("point_nonfinite_skipped");
        return;
    }

    if (o.has_value_only)
    {
        const double fv = o.eval(x, nullptr);
        c.count("value_eq_checks");
        if (!(fv == fx))
        {
            auto j = describe(o);
            j.kv("value_only", fv).kv("value_with_gradient", fx).kv("difference", fv - fx).vec("x", x);
            report(c, t, "C06|value-mismatch|" + o.id, j);
        }
    }

    static const double steps[] = {1e-3, 3e-4, 1e-4, 3e-5, 1e-5, 3e-6, 1e-6, 3e-7, 1e-7};

    const double gd    = g.dot(d);
    const double xs    = std::max(1.0, x.norm());
    const double scale = std::max({1.0, std::fabs(fx), std::fabs(gd)});
    const double tol   = 1e-7 * scale;

    constexpr int nsteps = 9;
    double        cds[nsteps], ss[nsteps];
    bool          okk[nsteps];
    double        best = INF, best_cd = 0.0, best_h = 0.0;
    int           valid = 0;
    for (int k = 0; k < nsteps; ++k)
    {
        const double h  = steps[k] * xs;
        const evec   xp = x + h * d, xn = x - h * d;
        const double fp = o.eval(xp, nullptr), fn = o.eval(xn, nullptr);
        okk[k]          = std::isfinite(fp) && std::isfinite(fn);
        cds[k]          = std::nan("");
        ss[k]           = std::nan("");
        if (!okk[k])
        {
            continue;
        }
        ++valid;
        cds[k] = (fp - fn) / (2.0 * h);           // central difference
        ss[k]  = (fp - fx) / h - (fx - fn) / h;   // forward slope - backward slope
        const double err = std::fabs(cds[k] - gd);
        if (err < best)
        {
            best    = err;
            best_cd = cds[k];
            best_h  = h;
        }
    }
    if (valid == 0)
    {
        c.count("point_nonfinite_skipped");
        return;
    }
    // Richardson-extrapolated central differences over the step pairs (h, h/10): exact where the value is C1 with
    // different curvatures on the two sides of x (squared hinge at its junction), where cd(h) = f' + (c+ - c-)h/4
    for (int k = 0; k + 2 < nsteps; ++k)
    {
        if (okk[k] && okk[k + 2])
        {
            const double cdr = (10.0 * cds[k + 2] - cds[k]) / 9.0;
            const double err = std::fabs(cdr - gd);
            if (err < best)
            {
                best    = err;
                best_cd = cdr;
                best_h  = steps[k + 2] * xs;
            }
        }
    }

    t.add(x);
    t.add(d);
    if (best <= tol)
    {
        c.count("gradient_fd_checks");
        ++t.fd_judged;
        t.worst_fd = std::max(t.worst_fd, best / tol);
        if (g.norm() > 1e-8)
        {
            ++t.fd_nontrivial;
        }
        return;
    }

    // the differences disagree with g.d.  (1) Is the value differentiable along d here?  s(h) = J + c*h for a kink of jump J
    // next to x and curvature c; Richardson removes c*h exactly (steps 1e-5, 1e-6, 1e-7).
    const double j1   = (10.0 * ss[6] - ss[4]) / 9.0;
    const double j2   = (10.0 * ss[8] - ss[6]) / 9.0;
    const bool   kink = !(std::fabs(j1) <= 0.5 * tol) || !(std::fabs(j2) <= 0.5 * tol); // NaN => not judged
    if (kink)
    {
        c.count("nondiff");
        c.count(o.smooth ? "nondiff_declared_smooth" : "nondiff_declared_nonsmooth");
        ++t.fd_nondiff;
        return;
    }
    // (2) Have the differences converged?  The verdict needs two plain central differences at steps a factor >= 3 apart that
    // agree within tol/2 (any error term a*h^p, p >= 1, is then below tol/4) while both are off g.d by more than tol.  A
    // curvature jump closer to x than the smallest step leaves an O(h) error no step resolves: counted, not judged.
    bool decisive = false;
    for (int k = 0; k + 1 < nsteps && !decisive; ++k)
    {
        decisive = okk[k] && okk[k + 1] && std::fabs(cds[k] - cds[k + 1]) <= 0.5 * tol && std::fabs(cds[k] - gd) > tol &&
                   std::fabs(cds[k + 1] - gd) > tol;
    }
    if (!decisive)
    {
        c.count("fd_undecided");
        return;
    }

    c.count("gradient_fd_checks");
    ++t.fd_judged;
    t.worst_fd = std::max(t.worst_fd, best / tol);
    auto j     = describe(o);
    j.kv("f", fx).kv("g_dot_d", gd).kv("central_difference", best_cd).kv("step", best_h).kv("error", best).kv("tolerance", tol);
    j.kv("slope_jump_estimate", std::max(std::fabs(j1), std::fabs(j2)));
    j.vec("x", x).vec("d", d).vec("g", g);
    report(c, t, "C06|gradient|" + o.id, j);
}

// ---------------------------------------------------------------------------------------------------------------------
// clause: declared convex (with coefficient mu) => first-order lower bound, random pairs + hill-climbing
// ---------------------------------------------------------------------------------------------------------------------
pair_t eval_pair(const object_t& o, const evec& x, const evec& z)
{
    pair_t p;
    p.x = x;
    p.z = z;
    evec g;
    p.fx = o.eval(x, &g);
    p.fz = o.eval(z, nullptr);
    if (!std::isfinite(p.fx) || !std::isfinite(p.fz) || !g.allFinite())
    {
        return p;
    }
    const evec dz = z - x;
    p.dist        = dz.norm();
    p.lin         = g.dot(dz);
    p.q           = 0.5 * o.mu * dz.squaredNorm();
    const double base = 1.0 + std::fabs(p.fx) + std::fabs(p.fz) + std::fabs(p.lin);
    p.r0          = (p.fx + p.lin - p.fz) / (1e-10 * base);
    if (o.mu > 0.0)
    {
        p.rmu = (p.fx + p.lin + p.q - p.fz) / (1e-10 * (base + p.q) + 0.5 * o.mu_abs_err * dz.squaredNorm());
    }
    else
    {
        p.rmu = p.r0;
    }
    p.ok = std::isfinite(p.r0) && std::isfinite(p.rmu);
    return p;
}

void note_pair(vf::ctx_t& c, const object_t& o, const pair_t& p, tally_t& t)
{
    if (!p.ok)
    {
        c.count("pair_nonfinite_skipped");
        return;
    }
    c.count("convex_pairs");
    if (o.mu > 0.0)
    {
        c.count("strong_convex_pairs");
    }
    ++t.pairs;
    if (p.dist > 1e-6)
    {
        ++t.pairs_nontrivial;
    }
    if (p.r0 > t.worst0.r0)
    {
        t.worst0 = p;
    }
    if (p.rmu > t.worstmu.rmu)
    {
        t.worstmu = p;
    }
}

void climb(vf::ctx_t& c, const object_t& o, pair_t best, int steps, double radius, tally_t& t)
{
    auto& rng = c.rng;
    const auto n = o.n;
    const auto special = [&](const evec& v, const evec& other, int i) -> double
    {
        switch (rng.integer(0, o.specials.size() == n ? 5 : 4))
        {
        case 0: return 0.0;
        case 1: return other(i);
        case 2: return std::round(v(i));
        case 3: return -v(rng.integer(0, n - 1));
        case 4: return v(rng.integer(0, n - 1));
        default: return o.specials(i);
        }
    };
    for (int it = 0; it < steps; ++it)
    {
        evec         x = best.x, z = best.z;
        // step sizes follow the scale of the current pair (boxes of radius 1e-3 .. 10)
        const double scale = std::max({1e-3, best.x.cwiseAbs().maxCoeff(), best.z.cwiseAbs().maxCoeff()});
        const double step  = std::min(radius, scale) * std::pow(10.0, -4.0 * rng.u01());
        switch (rng.integer(0, 7))
        {
        case 0:
        case 1: // perturb x
            for (int i = 0; i < n; ++i)
            {
                if (rng.chance(0.5))
                {
                    x(i) += step * rng.normal();
                }
            }
            break;
        case 2:
        case 3: // perturb z
            for (int i = 0; i < n; ++i)
            {
                if (rng.chance(0.5))
                {
                    z(i) += step * rng.normal();
                }
            }
            break;
        case 4: // perturb both
            for (int i = 0; i < n; ++i)
            {
                if (rng.chance(0.5))
                {
                    x(i) += step * rng.normal();
                }
                if (rng.chance(0.5))
                {
                    z(i) += step * rng.normal();
                }
            }
            break;
        case 5: // stretch / shrink the segment (an over-stated mu shows on long segments, a wrong sub-gradient on short ones)
        {
            const double s = rng.chance(0.5) ? rng.pick(std::vector<double>{0.1, 0.5, 2.0, 10.0}) : std::pow(10.0, rng.uniform(-2.0, 2.0));
            z              = x + s * (z - x);
            break;
        }
        case 6: // snap one coordinate to a kink candidate
        {
            const int i = static_cast<int>(rng.integer(0, n - 1));
            if (rng.chance(0.5))
            {
                x(i) = special(x, z, i);
            }
            else
            {
                z(i) = special(z, x, i);
            }
            break;
        }
        default: // move a single coordinate
        {
            const int i = static_cast<int>(rng.integer(0, n - 1));
            (rng.chance(0.5) ? x : z)(i) += step * rng.normal();
            break;
        }
        }
        clamp(x, o.box);
        clamp(z, o.box);
        const auto p = eval_pair(o, x, z);
        c.count("hillclimb_steps");
        note_pair(c, o, p, t);
        if (p.ok && p.score() > best.score())
        {
            best = p;
        }
    }
}

void check_convexity(vf::ctx_t& c, const object_t& o, const std::vector<std::pair<evec, evec>>& starts, int nclimb, int steps,
                     double radius, tally_t& t)
{
    if (!o.convex)
    {
        c.count("not_declared_convex");
        return;
    }
    t.worst0  = pair_t{};
    t.worstmu = pair_t{};
    std::vector<pair_t> pairs;
    for (const auto& [x, z] : starts)
    {
        auto p = eval_pair(o, x, z);
        note_pair(c, o, p, t);
        if (p.ok)
        {
            t.add(x);
            t.add(z);
            pairs.push_back(std::move(p));
        }
    }
    std::stable_sort(pairs.begin(), pairs.end(), [](const pair_t& a, const pair_t& b) { return a.score() > b.score(); });
    for (size_t i = 0; i < pairs.size() && i < static_cast<size_t>(nclimb); ++i)
    {
        climb(c, o, pairs[i], steps, radius, t);
    }

    const auto witness = [&](const pair_t& p, double ratio)
    {
        auto j = describe(o);
        j.kv("f_x", p.fx).kv("f_z", p.fz).kv("g_dot_z_minus_x", p.lin).kv("mu_half_dist2", p.q);
        j.kv("lower_bound", p.fx + p.lin + p.q).kv("violation_over_tolerance", ratio).kv("distance", p.dist);
        j.vec("x", p.x).vec("z", p.z);
        return j;
    };
    if (t.worstmu.ok)
    {
        t.worst_cvx = std::max(t.worst_cvx, t.worstmu.rmu);
    }
    if (t.worst0.ok && t.worst0.r0 > 1.0)
    {
        auto p = t.worst0;
        p.q    = 0.0;
        report(c, t, "C06|convexity|" + o.id, witness(p, p.r0));
    }
    else if (t.worstmu.ok && t.worstmu.rmu > 1.0)
    {
        report(c, t, "C06|strong-convexity|" + o.id, witness(t.worstmu, t.worstmu.rmu));
    }
}

std::vector<std::pair<evec, evec>> random_pairs(vf::rng_t& rng, int n, int count, double rlo, double rhi, double box,
                                                const std::vector<evec>& seeds)
{
    std::vector<std::pair<evec, evec>> pairs;
    for (int k = 0; k < count; ++k)
    {
        const double radius = pick_radius(rng, rlo, rhi);
        evec         x      = (!seeds.empty() && rng.chance(0.3)) ? rng.pick(seeds) : random_point(rng, n, radius, true);
        evec         z;
        switch (rng.integer(0, 5))
        {
        case 0: z = x + radius * std::pow(10.0, -3.0 * rng.u01()) * random_direction(rng, n); break; // a close neighbour
        case 1: z = random_point(rng, n, pick_radius(rng, rlo, rhi), true); break;                   // another scale
        case 2: z = -x; break;                                                                       // across the origin
        default: z = random_point(rng, n, radius, true); break;
        }
        clamp(x, box);
        clamp(z, box);
        pairs.emplace_back(std::move(x), std::move(z));
    }
    return pairs;
}

void finish_case(vf::ctx_t& c, const object_t& o, tally_t& t, const vf::json_t& extra)
{
    c.maxc("fd_error_over_tolerance_x1e6", static_cast<int64_t>(std::min(1e15, t.worst_fd * 1e6)));
    if (o.convex)
    {
        c.maxc("convexity_violation_over_tolerance_x1e6", static_cast<int64_t>(std::min(1e15, std::max(0.0, t.worst_cvx) * 1e6)));
    }
    // NT rule: >= 1 judged point with |g| > 1e-8, and for declared-convex objects >= 1 judged pair with |z-x| > 1e-6
    if (t.fd_nontrivial > 0 && (!o.convex || t.pairs_nontrivial > 0))
    {
        t.add(o.id);
        t.add(o.desc);
        c.nontrivial(t.hash);
    }
    if (c.want_sample())
    {
        auto j = describe(o);
        j.kv("points_judged", t.fd_judged).kv("points_nondifferentiable", t.fd_nondiff).kv("pairs_judged", t.pairs);
        j.kv("worst_fd_error_over_tolerance", t.worst_fd);
        j.kv("worst_convexity_violation_over_tolerance", t.worst_cvx);
        j.kv("extra", extra);
        c.sample(j);
    }
}

// ---------------------------------------------------------------------------------------------------------------------
// mode "functions": every registered prototype x dims
// ---------------------------------------------------------------------------------------------------------------------
const strings_t& function_ids()
{
    static const auto ids = []
    {
        auto v = function_t::all().ids();
        std::sort(v.begin(), v.end());
        return v;
    }();
    return ids;
}

rfunction_t make_benchmark(vf::ctx_t& c, int64_t slot, bool systematic, std::string& desc)
{
    static const tensor_size_t std_dims[] = {1, 2, 3, 4, 8, 16, 32};

    auto&       rng   = c.rng;
    const auto& ids   = function_ids();
    const auto  nids  = static_cast<int64_t>(ids.size());
    const auto  block = nids * 7;
    const auto  k     = slot % block;
    const auto  a = k / nids, b = k % nids;
    const auto& id    = ids[static_cast<size_t>((a + b) % nids)];
    // the first pass over (prototype x {1,2,3,4,8,16,32}) is systematic, later passes draw any dimension in 1..32
    const auto dims     = (systematic && (slot < block || rng.chance(0.5))) ? std_dims[a] : static_cast<tensor_size_t>(rng.integer(1, 32));
    const auto summands = static_cast<tensor_size_t>(rng.pick(std::vector<int>{1, 2, 3, 5, 10, 20, 50, 100}));
    auto       proto    = function_t::all().get(id);
    auto       f        = proto->make(dims, summands);
    desc                = f->name() + " dims=" + std::to_string(dims) + " summands=" + std::to_string(summands);
    return f;
}

void case_functions(vf::ctx_t& c)
{
    auto&       rng = c.rng;
    std::string desc;
    const auto  f = make_benchmark(c, c.index, true, desc);
    const auto  o = wrap_function(*f, f->type_id(), desc);
    tally_t     t;

    std::vector<evec> seeds;
    const int         points = 8;
    for (int p = 0; p < points; ++p)
    {
        const double radius = pick_radius(rng, 1e-3, 10.0);
        const auto   x      = random_point(rng, o.n, radius, true);
        check_point(c, o, x, random_direction(rng, o.n), t);
        seeds.push_back(x);
    }
    auto pairs = random_pairs(rng, o.n, 20, 1e-3, 10.0, o.box, seeds);
    if (o.convex && !o.smooth)
    {
        // max-type and |.|-type functions: the returned sub-gradient must be one of an ACTIVE piece also on exact ties, which
        // sit on lattice points (x_i in -4..4): pair them with points of lower value around the origin
        for (int k = 0, count = o.n <= 4 ? 40 : 12; k < count; ++k)
        {
            evec x(o.n);
            const auto span = rng.integer(1, 4);
            for (int i = 0; i < o.n; ++i)
            {
                x(i) = static_cast<double>(rng.integer(-span, span));
            }
            pairs.emplace_back(std::move(x), random_point(rng, o.n, rng.uniform(0.1, 2.0), false));
            c.count("tie_lattice_pairs");
        }
    }
    check_convexity(c, o, pairs, 5, 200, 10.0, t);
    c.count(std::string("objects_") + (o.convex ? "convex" : "nonconvex") + (o.smooth ? "_smooth" : "_nonsmooth"));
    if (o.mu > 0.0 && o.convex)
    {
        c.count("objects_strongly_convex");
    }
    finish_case(c, o, t, vf::json_t());
}

// ---------------------------------------------------------------------------------------------------------------------
// mode "losses"
// ---------------------------------------------------------------------------------------------------------------------
enum class lkind
{
    regression,
    sclass,
    mclass
};

const strings_t& loss_ids()
{
    static const auto ids = []
    {
        auto v = loss_t::all().ids();
        std::sort(v.begin(), v.end());
        return v;
    }();
    return ids;
}

lkind kind_of(const std::string& id)
{
    return id.rfind("s-", 0) == 0 ? lkind::sclass : (id.rfind("m-", 0) == 0 ? lkind::mclass : lkind::regression);
}

void fill_target(vf::rng_t& rng, lkind kind, int n, double R, evec& t, std::string& pattern)
{
    t.resize(n);
    if (kind == lkind::regression)
    {
        for (int i = 0; i < n; ++i)
        {
            t(i) = rng.chance(0.2) ? std::round(rng.uniform(-3.0, 3.0)) : rng.uniform(-R, R);
        }
        pattern = "real";
        return;
    }
    t.setConstant(neg_target());
    if (n == 1)
    {
        t(0)    = rng.chance(0.5) ? pos_target() : neg_target();
        pattern = t(0) > 0 ? "binary+" : "binary-";
        return;
    }
    const auto p = rng.integer(0, kind == lkind::sclass ? 7 : 5);
    if (p == 0)
    {
        pattern = "none";
    }
    else if (p == 1)
    {
        t.setConstant(pos_target());
        pattern = "all";
    }
    else if (p == 2)
    {
        pattern = "several";
        int npos = 0;
        for (int i = 0; i < n; ++i)
        {
            if (rng.chance(0.5))
            {
                t(i) = pos_target();
                ++npos;
            }
        }
        if (npos == 0)
        {
            t(rng.integer(0, n - 1)) = pos_target();
        }
    }
    else
    {
        t(rng.integer(0, n - 1)) = pos_target();
        pattern                  = "one";
    }
}

void fill_output(vf::rng_t& rng, lkind kind, int n, double R, const evec& t, evec& o)
{
    o.resize(n);
    const auto style = rng.integer(0, 7);
    for (int i = 0; i < n; ++i)
    {
        switch (style)
        {
        case 0: o(i) = t(i) + rng.uniform(-1.0, 1.0) * std::pow(10.0, -6.0 * rng.u01()); break; // next to the target / hinge kink
        case 1: o(i) = rng.chance(0.4) ? t(i) : rng.uniform(-R, R); break;                      // exactly on kinks
        case 2: o(i) = rng.chance(0.3) ? 0.0 : rng.uniform(-R, R); break;                       // exact zeros (sign rule ties)
        case 3: o(i) = std::round(rng.uniform(-std::min(R, 4.0), std::min(R, 4.0))); break;     // lattice: arg-max ties
        default: o(i) = rng.uniform(-R, R); break;
        }
    }
    if (kind == lkind::sclass && n > 1 && rng.chance(0.25))
    {
        // an exact tie of the maximum
        Eigen::Index imax = 0;
        o.maxCoeff(&imax);
        o(rng.integer(0, n - 1)) = o(imax);
    }
}

void set_sample(tensor4d_t& tensor, tensor_size_t s, const evec& v)
{
    tensor.vector(s) = v;
}

void case_losses(vf::ctx_t& c)
{
    auto&       rng  = c.rng;
    const auto& ids  = loss_ids();
    const auto  id   = ids[static_cast<size_t>(c.index) % ids.size()];
    const auto  kind = kind_of(id);
    auto        loss = loss_t::all().get(id);
    std::string desc = id;
    if (id == "pinball")
    {
        const auto   k     = rng.integer(0, 5);
        const double alpha = k == 0 ? 0.0 : (k == 1 ? 1.0 : (k == 2 ? 0.5 : rng.u01()));
        loss->parameter("loss::pinball::alpha") = alpha;
        desc += " alpha=" + vf::json_t::num(alpha);
    }
    const int    n = static_cast<int>(rng.chance(0.15) ? 1 : rng.integer(1, 13));
    const int    S = static_cast<int>(rng.integer(2, 6));
    const double R = pick_radius(rng, 1e-2, 30.0);
    desc += " outputs=" + std::to_string(n) + " samples=" + std::to_string(S);

    std::vector<evec>        T(static_cast<size_t>(S)), O(static_cast<size_t>(S));
    std::vector<std::string> patterns(static_cast<size_t>(S));
    tensor4d_t               targets(S, n, 1, 1), outputs(S, n, 1, 1);
    for (int s = 0; s < S; ++s)
    {
        const auto u = static_cast<size_t>(s);
        fill_target(rng, kind, n, R, T[u], patterns[u]);
        fill_output(rng, kind, n, R, T[u], O[u]);
        set_sample(targets, s, T[u]);
        set_sample(outputs, s, O[u]);
    }
    tensor1d_t values, errors;
    tensor4d_t vgrads;
    loss->value(targets, outputs, values);
    loss->error(targets, outputs, errors);
    loss->vgrad(targets, outputs, vgrads);

    tally_t t;
    t.add(id);
    const auto base = [&](int s)
    {
        vf::json_t j;
        j.kv("loss", desc).kv("sample", s).kv("pattern", patterns[static_cast<size_t>(s)]);
        j.vec("target", T[static_cast<size_t>(s)]).vec("output", O[static_cast<size_t>(s)]);
        return j;
    };

    // ---- non-negativity and the 0-1 decision rules ----------------------------------------------------------------
    for (int s = 0; s < S; ++s)
    {
        const auto& tg = T[static_cast<size_t>(s)];
        const auto& ou = O[static_cast<size_t>(s)];
        t.add(tg);
        t.add(ou);
        int npos = 0;
        for (int i = 0; i < n; ++i)
        {
            npos += tg(i) > 0 ? 1 : 0;
        }
        // the class negative log-likelihood log(sum exp o) - sum_{positive} o is a likelihood only for single-label targets:
        // with no or several positive labels the formula itself goes negative, which is no defect of the kernel
        const bool in_domain = !(id == "s-classnll" && npos != 1);
        if (in_domain)
        {
            c.count("loss_nonneg_checks");
            if (!(values(s) >= 0.0))
            {
                report(c, t, "C06|negative-loss|" + id, base(s).kv("value", values(s)));
            }
        }
        else
        {
            c.count("loss_nonneg_out_of_domain");
        }
        c.count("error_nonneg_checks");
        if (!(errors(s) >= 0.0))
        {
            report(c, t, "C06|negative-error|" + id, base(s).kv("error", errors(s)));
        }

        const double tie = 1e-15; // |t*o| below this is an exact tie of the sign rule: either answer is accepted
        if (kind == lkind::sclass && n > 1)
        {
            const double omax    = ou.maxCoeff();
            bool         any_pos = false, any_neg = false;
            for (int i = 0; i < n; ++i)
            {
                if (ou(i) == omax)
                {
                    (tg(i) > 0 ? any_pos : any_neg) = true;
                }
            }
            c.count("error_rule_argmax_checks");
            const bool ok = (errors(s) == 0.0 && any_pos) || (errors(s) == 1.0 && any_neg);
            if (!ok)
            {
                report(c, t, "C06|error-rule|" + id, base(s).kv("error", errors(s)).kv("rule", "arg-max").kv("expected", any_pos ? (any_neg ? "0 or 1" : "0") : "1"));
            }
        }
        else if (kind != lkind::regression)
        {
            int lo = 0, hi = 0; // admissible range of the number of mis-predicted labels
            for (int i = 0; i < n; ++i)
            {
                const double edge = tg(i) * ou(i);
                if (std::fabs(edge) < tie)
                {
                    ++hi;
                }
                else if (edge < 0.0)
                {
                    ++lo;
                    ++hi;
                }
            }
            c.count("error_rule_sign_checks");
            if (!(errors(s) >= lo && errors(s) <= hi && errors(s) == std::floor(errors(s))))
            {
                report(c, t, "C06|error-rule|" + id, base(s).kv("error", errors(s)).kv("rule", "sign").kv("expected_min", lo).kv("expected_max", hi));
            }
        }
    }

    // ---- per-sample independence ------------------------------------------------------------------------------------
    const auto close = [](double a, double b, double scale) { return std::fabs(a - b) <= 1e-12 * std::max(1.0, scale); };
    for (int s = 0; s < S; ++s)
    {
        // (a) same position, every other sample replaced: bitwise
        tensor4d_t targets2(S, n, 1, 1), outputs2(S, n, 1, 1);
        for (int r = 0; r < S; ++r)
        {
            if (r == s)
            {
                set_sample(targets2, r, T[static_cast<size_t>(r)]);
                set_sample(outputs2, r, O[static_cast<size_t>(r)]);
            }
            else
            {
                evec        t2, o2;
                std::string dummy;
                fill_target(rng, kind, n, R, t2, dummy);
                fill_output(rng, kind, n, R, t2, o2);
                set_sample(targets2, r, t2);
                set_sample(outputs2, r, o2);
            }
        }
        tensor1d_t v2, e2;
        tensor4d_t g2;
        loss->value(targets2, outputs2, v2);
        loss->error(targets2, outputs2, e2);
        loss->vgrad(targets2, outputs2, g2);
        c.count("independence_replace_checks");
        const evec ga = vgrads.vector(s), gb = g2.vector(s);
        if (!(v2(s) == values(s)) || !(e2(s) == errors(s)) || !(ga.array() == gb.array()).all())
        {
            report(c, t, "C06|sample-independence|" + id,
                   base(s).kv("how", "other samples replaced").kv("value", values(s)).kv("value_after", v2(s)).kv("error", errors(s)).kv("error_after", e2(s)).vec("grad", ga).vec("grad_after", gb));
        }

        // (b) evaluated alone: equal up to the rounding of a different summation order
        tensor4d_t t1(1, n, 1, 1), o1(1, n, 1, 1);
        set_sample(t1, 0, T[static_cast<size_t>(s)]);
        set_sample(o1, 0, O[static_cast<size_t>(s)]);
        tensor1d_t v1, e1;
        tensor4d_t g1;
        loss->value(t1, o1, v1);
        loss->error(t1, o1, e1);
        loss->vgrad(t1, o1, g1);
        c.count("independence_alone_checks");
        const evec   gc     = g1.vector(0);
        const double gscale = ga.cwiseAbs().maxCoeff();
        if (!close(v1(0), values(s), std::fabs(values(s))) || !close(e1(0), errors(s), std::fabs(errors(s))) ||
            !((ga - gc).cwiseAbs().maxCoeff() <= 1e-12 * std::max(1.0, gscale)))
        {
            report(c, t, "C06|sample-independence|" + id,
                   base(s).kv("how", "evaluated alone").kv("value", values(s)).kv("value_alone", v1(0)).kv("error", errors(s)).kv("error_alone", e1(0)).vec("grad", ga).vec("grad_alone", gc));
        }
    }
    {
        // (c) a permutation of the batch
        std::vector<int> perm(static_cast<size_t>(S));
        for (int s = 0; s < S; ++s)
        {
            perm[static_cast<size_t>(s)] = s;
        }
        for (int s = S - 1; s > 0; --s)
        {
            std::swap(perm[static_cast<size_t>(s)], perm[static_cast<size_t>(rng.integer(0, s))]);
        }
        tensor4d_t targets3(S, n, 1, 1), outputs3(S, n, 1, 1);
        for (int s = 0; s < S; ++s)
        {
            set_sample(targets3, s, T[static_cast<size_t>(perm[static_cast<size_t>(s)])]);
            set_sample(outputs3, s, O[static_cast<size_t>(perm[static_cast<size_t>(s)])]);
        }
        tensor1d_t v3, e3;
        tensor4d_t g3;
        loss->value(targets3, outputs3, v3);
        loss->error(targets3, outputs3, e3);
        loss->vgrad(targets3, outputs3, g3);
        for (int s = 0; s < S; ++s)
        {
            const int  src = perm[static_cast<size_t>(s)];
            const evec ga = vgrads.vector(src), gb = g3.vector(s);
            c.count("independence_permute_checks");
            if (!close(v3(s), values(src), std::fabs(values(src))) || !close(e3(s), errors(src), std::fabs(errors(src))) ||
                !((ga - gb).cwiseAbs().maxCoeff() <= 1e-12 * std::max(1.0, ga.cwiseAbs().maxCoeff())))
            {
                report(c, t, "C06|sample-independence|" + id,
                       base(src).kv("how", "batch permuted").kv("value", values(src)).kv("value_after", v3(s)).kv("error", errors(src)).kv("error_after", e3(s)));
            }
        }
    }

    // ---- gradient and convexity of the per-sample value as a function of the prediction ----------------------------
    object_t o;
    for (int s = 0; s < S; ++s)
    {
        const auto& tg = T[static_cast<size_t>(s)];
        tensor4d_t  t1(1, n, 1, 1);
        set_sample(t1, 0, tg);
        o                = object_t{};
        o.id             = id;
        o.desc           = desc + " pattern=" + patterns[static_cast<size_t>(s)];
        o.n              = n;
        o.convex         = loss->convex();
        o.smooth         = loss->smooth();
        o.mu             = 0.0;
        o.has_value_only = false;
        o.box            = 30.0;
        o.specials       = tg;
        o.eval           = [&loss, t1, n](const evec& x, evec* g) -> double
        {
            tensor4d_t o1(1, n, 1, 1);
            o1.vector(0) = x;
            tensor1d_t v;
            loss->value(t1, o1, v);
            if (g != nullptr)
            {
                tensor4d_t g1;
                loss->vgrad(t1, o1, g1);
                *g = g1.vector(0);
            }
            return v(0);
        };
        check_point(c, o, O[static_cast<size_t>(s)], random_direction(rng, n), t);
        check_point(c, o, random_point(rng, n, R, false), random_direction(rng, n), t);

        std::vector<std::pair<evec, evec>> starts;
        for (int k = 0; k < 4; ++k)
        {
            evec x, z;
            fill_output(rng, kind, n, R, tg, x);
            fill_output(rng, kind, n, rng.chance(0.5) ? R : pick_radius(rng, 1e-2, 30.0), tg, z);
            if (k == 0)
            {
                x = O[static_cast<size_t>(s)];
            }
            starts.emplace_back(std::move(x), std::move(z));
        }
        check_convexity(c, o, starts, 2, 60, R, t);
    }
    c.count(std::string("losses_") + (loss->convex() ? "convex" : "nonconvex") + (loss->smooth() ? "_smooth" : "_nonsmooth"));
    vf::json_t extra;
    extra.kv("loss", desc).strs("patterns", patterns).vec("target0", T[0]).vec("output0", O[0]).kv("value0", values(0)).kv("error0", errors(0));
    finish_case(c, o, t, extra);
}

// ---------------------------------------------------------------------------------------------------------------------
// mode "constraints"
// ---------------------------------------------------------------------------------------------------------------------
vector_t to_vector(const evec& v)
{
    vector_t r(static_cast<tensor_size_t>(v.size()));
    r.vector() = v;
    return r;
}

emat random_orthogonal(vf::rng_t& rng, int n)
{
    emat M(n, n);
    for (int i = 0; i < n; ++i)
    {
        for (int j = 0; j < n; ++j)
        {
            M(i, j) = rng.normal();
        }
    }
    emat Q = Eigen::HouseholderQR<emat>(M).householderQ();
    return Q;
}

void case_constraints(vf::ctx_t& c)
{
    auto&      rng  = c.rng;
    const auto kind = static_cast<int>(c.index % 11);
    int        n    = static_cast<int>(rng.chance(0.2) ? rng.integer(1, 2) : rng.integer(1, c.args.thorough() ? 32 : 16));

    const auto rvec = [&](double scale)
    {
        evec v(n);
        for (int i = 0; i < n; ++i)
        {
            v(i) = rng.chance(0.15) ? 0.0 : scale * rng.uniform(-1.0, 1.0);
        }
        return v;
    };
    const auto cscale = rng.loguniform(1e-2, 1e2);

    constraint_t ct;
    std::string  id, desc;
    double       mu_abs_err = 0.0;
    rfunction_t  inner;
    std::string  inner_id;

    const auto make_quadratic = [&](constraint::quadratic_t& q)
    {
        // symmetric P (the documented form 1/2 x'Px + q'x + r with gradient Px + q presumes it): PD with a bounded condition
        // number, PSD with exact zero eigenvalues, indefinite or negative definite (then no convexity may be declared)
        const auto  Q     = random_orthogonal(rng, n);
        const auto  shape = rng.integer(0, 5);
        evec        s(n);
        for (int i = 0; i < n; ++i)
        {
            s(i) = cscale * rng.loguniform(0.1, 10.0);
        }
        std::string what = "pd";
        if (shape == 0 && n > 1)
        {
            what = "psd-singular";
            for (int i = 0; i < n; ++i)
            {
                if (i == 0 || rng.chance(0.3))
                {
                    s(i) = 0.0;
                }
            }
        }
        else if (shape == 1)
        {
            what = "indefinite";
            s(0) = -s(0);
            for (int i = 1; i < n; ++i)
            {
                if (rng.chance(0.3))
                {
                    s(i) = -s(i);
                }
            }
        }
        else if (shape == 2)
        {
            what = "negative-definite";
            s    = -s;
        }
        else if (shape == 3)
        {
            what = "multiple-of-identity";
            s.setConstant(s(0));
        }
        emat P = Q * s.asDiagonal() * Q.transpose();
        P      = (0.5 * (P + P.transpose())).eval();
        if (what == "multiple-of-identity" || (what == "pd" && rng.chance(0.2)))
        {
            // exactly diagonal: the eigenvalues are the entries
            P = s.asDiagonal();
            what += "-diagonal";
        }
        q.m_P = matrix_t(n, n);
        q.m_P.matrix() = P;
        q.m_q          = to_vector(rvec(cscale));
        q.m_r          = rng.uniform(-5.0, 5.0);
        mu_abs_err     = 1e-13 * P.norm();
        desc           = what + " n=" + std::to_string(n) + " scale=" + vf::json_t::num(cscale);
    };
    const auto make_functional = [&](constraint::functional_t& f)
    {
        std::string fdesc;
        inner = make_benchmark(c, rng.integer(0, 1 << 20), false, fdesc);
        n     = static_cast<int>(inner->size());
        f     = constraint::functional_t{*inner};
        desc  = fdesc;
        inner_id = "(" + inner->type_id() + ")"; // the wrapped function is part of WHAT failed
    };

    switch (kind)
    {
    case 0:
    case 1:
    case 2:
    {
        const auto value = rng.uniform(-5.0, 5.0);
        const auto dim   = static_cast<tensor_size_t>(rng.integer(0, n - 1));
        if (kind == 0)
        {
            ct = constraint::constant_t{value, dim};
            id = "constraint::constant_t";
        }
        else if (kind == 1)
        {
            ct = constraint::minimum_t{{value, dim}};
            id = "constraint::minimum_t";
        }
        else
        {
            ct = constraint::maximum_t{{value, dim}};
            id = "constraint::maximum_t";
        }
        desc = "n=" + std::to_string(n) + " dim=" + std::to_string(dim) + " value=" + vf::json_t::num(value);
        break;
    }
    case 3:
    case 4:
    {
        const auto radius = rng.loguniform(0.1, 10.0);
        const auto origin = to_vector(rvec(rng.loguniform(1e-2, 10.0)));
        if (kind == 3)
        {
            ct = constraint::euclidean_ball_equality_t{{origin, radius}};
            id = "constraint::euclidean_ball_equality_t";
        }
        else
        {
            ct = constraint::euclidean_ball_inequality_t{{origin, radius}};
            id = "constraint::euclidean_ball_inequality_t";
        }
        desc = "n=" + std::to_string(n) + " radius=" + vf::json_t::num(radius);
        break;
    }
    case 5:
    case 6:
    {
        const auto q = to_vector(rvec(cscale));
        const auto r = rng.uniform(-5.0, 5.0);
        if (kind == 5)
        {
            ct = constraint::linear_equality_t{{q, r}};
            id = "constraint::linear_equality_t";
        }
        else
        {
            ct = constraint::linear_inequality_t{{q, r}};
            id = "constraint::linear_inequality_t";
        }
        desc = "n=" + std::to_string(n) + " scale=" + vf::json_t::num(cscale);
        break;
    }
    case 7:
    {
        constraint::quadratic_equality_t q;
        make_quadratic(q);
        ct = std::move(q);
        id = "constraint::quadratic_equality_t";
        break;
    }
    case 8:
    {
        constraint::quadratic_inequality_t q;
        make_quadratic(q);
        ct = std::move(q);
        id = "constraint::quadratic_inequality_t";
        break;
    }
    case 9:
    {
        constraint::functional_equality_t f;
        make_functional(f);
        ct = std::move(f);
        id = "constraint::functional_equality_t" + inner_id;
        break;
    }
    default:
    {
        constraint::functional_inequality_t f;
        make_functional(f);
        ct = std::move(f);
        id = "constraint::functional_inequality_t" + inner_id;
        break;
    }
    }

    object_t o;
    o.id         = id;
    o.desc       = desc;
    o.n          = n;
    o.convex     = ::nano::convex(ct);
    o.smooth     = ::nano::smooth(ct);
    o.mu         = ::nano::strong_convexity(ct);
    o.mu_abs_err = mu_abs_err;
    o.eval       = [&ct](const evec& x, evec* g) -> double
    {
        const auto n = static_cast<tensor_size_t>(x.size());
        if (g != nullptr)
        {
            g->resize(x.size());
            return ::nano::vgrad(ct, map_tensor(x.data(), n), map_tensor(g->data(), n));
        }
        return ::nano::vgrad(ct, map_tensor(x.data(), n));
    };

    tally_t           t;
    std::vector<evec> seeds;
    for (int p = 0; p < 6; ++p)
    {
        const auto x = random_point(rng, n, pick_radius(rng, 1e-3, 10.0), true);
        check_point(c, o, x, random_direction(rng, n), t);
        seeds.push_back(x);
    }
    check_convexity(c, o, random_pairs(rng, n, 12, 1e-3, 10.0, o.box, seeds), 3, 100, 10.0, t);
    c.count("kind_" + id.substr(12, id.find('(') == std::string::npos ? std::string::npos : id.find('(') - 12));
    if (o.convex)
    {
        c.count("constraints_declared_convex");
    }
    if (o.convex && o.mu > 0.0)
    {
        c.count("constraints_declared_strongly_convex");
    }
    finish_case(c, o, t, vf::json_t());
}

// ---------------------------------------------------------------------------------------------------------------------
// mode "ml": linear / gboost / surrogate objectives over small random datasets (1-thread dataset pool)
// ---------------------------------------------------------------------------------------------------------------------
class ml_datasource_t final : public datasource_t
{
public:
    ml_datasource_t(tensor_size_t samples, uint64_t seed, int nscalar, bool with_sclass, bool with_mclass, int tkind, int tsize,
                    double fscale)
        : datasource_t("c06")
        , m_samples(samples)
        , m_seed(seed)
        , m_nscalar(nscalar)
        , m_with_sclass(with_sclass)
        , m_with_mclass(with_mclass)
        , m_tkind(tkind)
        , m_tsize(tsize)
        , m_fscale(fscale)
    {
    }

    rdatasource_t clone() const override { return std::make_unique<ml_datasource_t>(*this); }

private:
    void do_load() override
    {
        vf::rng_t  rng(m_seed);
        features_t features;
        for (int i = 0; i < m_nscalar; ++i)
        {
            features.push_back(feature_t{"x" + std::to_string(i)}.scalar((i % 2) == 0 ? feature_type::float64 : feature_type::float32));
        }
        if (m_with_sclass)
        {
            features.push_back(feature_t{"c0"}.sclass(3));
        }
        if (m_with_mclass)
        {
            features.push_back(feature_t{"m0"}.mclass(3));
        }
        if (m_tkind == 0)
        {
            features.push_back(feature_t{"y"}.scalar(feature_type::float64, make_dims(m_tsize, 1, 1)));
        }
        else if (m_tkind == 1)
        {
            features.push_back(feature_t{"y"}.sclass(static_cast<size_t>(m_tsize)));
        }
        else
        {
            features.push_back(feature_t{"y"}.mclass(static_cast<size_t>(m_tsize)));
        }
        const auto itarget = static_cast<tensor_size_t>(features.size()) - 1;
        resize(m_samples, features, static_cast<size_t>(itarget));

        for (tensor_size_t s = 0; s < m_samples; ++s)
        {
            tensor_size_t f   = 0;
            double        mix = 0.0;
            for (int i = 0; i < m_nscalar; ++i, ++f)
            {
                const double v = m_fscale * (rng.chance(0.2) ? std::round(rng.uniform(-2.0, 2.0)) : rng.uniform(-1.0, 1.0));
                mix += v * (i + 1);
                set(s, f, v);
            }
            if (m_with_sclass)
            {
                set(s, f++, static_cast<int>(rng.integer(0, 2)));
            }
            if (m_with_mclass)
            {
                tensor_mem_t<int8_t, 1> hits(3);
                for (int k = 0; k < 3; ++k)
                {
                    hits(k) = static_cast<int8_t>(rng.integer(0, 1));
                }
                set(s, f++, hits);
            }
            if (m_tkind == 0)
            {
                tensor3d_t y(make_dims(m_tsize, 1, 1));
                for (int k = 0; k < m_tsize; ++k)
                {
                    y(k) = rng.chance(0.3) ? std::round(mix) : (0.3 * mix + rng.uniform(-3.0, 3.0));
                }
                set(s, itarget, y);
            }
            else if (m_tkind == 1)
            {
                set(s, itarget, static_cast<int>(rng.integer(0, m_tsize - 1)));
            }
            else
            {
                tensor_mem_t<int8_t, 1> hits(m_tsize);
                for (int k = 0; k < m_tsize; ++k)
                {
                    hits(k) = static_cast<int8_t>(rng.integer(0, 1));
                }
                set(s, itarget, hits);
            }
        }
    }

    tensor_size_t m_samples;
    uint64_t      m_seed;
    int           m_nscalar;
    bool          m_with_sclass, m_with_mclass;
    int           m_tkind, m_tsize;
    double        m_fscale;
};

std::string pick_loss(vf::rng_t& rng, int tkind)
{
    std::vector<std::string> ids;
    for (const auto& id : loss_ids())
    {
        const auto k = kind_of(id);
        if ((tkind == 0 && k == lkind::regression) || (tkind == 1 && k == lkind::sclass) || (tkind == 2 && k == lkind::mclass))
        {
            ids.push_back(id);
        }
    }
    return rng.pick(ids);
}

rloss_t make_loss(vf::rng_t& rng, const std::string& id, std::string& desc)
{
    auto loss = loss_t::all().get(id);
    desc      = "loss=" + id;
    if (id == "pinball")
    {
        const double alpha = rng.chance(0.3) ? rng.pick(std::vector<double>{0.0, 0.5, 1.0}) : rng.u01();
        loss->parameter("loss::pinball::alpha") = alpha;
        desc += "(alpha=" + vf::json_t::num(alpha) + ")";
    }
    return loss;
}

void run_ml_object(vf::ctx_t& c, object_t& o, const char* id, const std::string& desc, double rlo, double rhi, int points, int pairs,
                   int nclimb, int steps)
{
    auto& rng = c.rng;
    o.id      = id;
    o.desc    = desc;
    tally_t           t;
    std::vector<evec> seeds;
    for (int p = 0; p < points; ++p)
    {
        const auto x = random_point(rng, o.n, pick_radius(rng, rlo, rhi), true);
        check_point(c, o, x, random_direction(rng, o.n), t);
        seeds.push_back(x);
    }
    check_convexity(c, o, random_pairs(rng, o.n, pairs, rlo, rhi, o.box, seeds), nclimb, steps, 10.0, t);
    c.count(std::string("ml_") + id);
    if (o.convex && o.mu > 0.0)
    {
        c.count("ml_declared_strongly_convex");
    }
    finish_case(c, o, t, vf::json_t());
}

void case_ml(vf::ctx_t& c)
{
    auto&      rng  = c.rng;
    const auto what = c.index % 8; // 0,1,2: linear; 3: bias; 4: scale; 5: grads; 6: surrogate fit; 7: surrogate

    if (what == 7)
    {
        const int k = static_cast<int>(rng.integer(1, 5));
        const int m = (k + 1) * (k + 2) / 2;
        evec      model(m);
        const auto scale = rng.loguniform(1e-2, 1e2);
        for (int i = 0; i < m; ++i)
        {
            model(i) = rng.chance(0.1) ? 0.0 : scale * rng.uniform(-1.0, 1.0);
        }
        const auto f = quadratic_surrogate_t{to_vector(model)};
        auto       o = wrap_function(f, "", "");
        run_ml_object(c, o, "quadratic_surrogate_t", "params=" + std::to_string(k) + " scale=" + vf::json_t::num(scale), 1e-3, 10.0, 8, 4, 0, 0);
        return;
    }
    if (what == 6)
    {
        const int  k = static_cast<int>(rng.integer(1, 3));
        const auto S = static_cast<tensor_size_t>(rng.integer(2, 20));
        const auto id = rng.pick(loss_ids());
        std::string ldesc;
        const auto loss  = make_loss(rng, id, ldesc);
        const bool isreg = kind_of(id) == lkind::regression;
        tensor2d_t p(S, static_cast<tensor_size_t>(k));
        tensor1d_t y(S);
        for (tensor_size_t s = 0; s < S; ++s)
        {
            for (tensor_size_t i = 0; i < k; ++i)
            {
                p(s, i) = rng.chance(0.2) ? std::round(rng.uniform(-2.0, 2.0)) : rng.uniform(-2.0, 2.0);
            }
            y(s) = isreg ? rng.uniform(-5.0, 5.0) : (rng.chance(0.5) ? 1.0 : -1.0);
        }
        const auto f = quadratic_surrogate_fit_t{*loss, p, y};
        auto       o = wrap_function(f, "", "");
        run_ml_object(c, o, "quadratic_surrogate_fit_t", ldesc + " params=" + std::to_string(k) + " samples=" + std::to_string(S), 1e-3, 5.0, 6,
                      10, 3, 100);
        return;
    }

    // a small random dataset without missing values (a missing input flattens to NaN and the objective is NaN everywhere)
    const auto N       = static_cast<tensor_size_t>(rng.integer(3, 40));
    const auto dseed   = rng.next();
    const int  nscalar = static_cast<int>(rng.integer(1, 4));
    const bool wsc = rng.chance(0.3), wmc = rng.chance(0.2);
    const int  tkind = static_cast<int>(rng.integer(0, 2));
    const int  tsize = static_cast<int>(tkind == 0 ? rng.integer(1, 3) : rng.integer(2, 4));
    const auto fscale = rng.pick(std::vector<double>{0.1, 1.0, 1.0, 5.0});

    auto ds = ml_datasource_t{N, dseed, nscalar, wsc, wmc, tkind, tsize, fscale};
    ds.load();
    auto dataset = dataset_t{ds, 1U};
    dataset.add<scalar_identity_generator_t>();
    dataset.add<sclass_identity_generator_t>();
    dataset.add<mclass_identity_generator_t>();
    if (dataset.concurrency() != 1U)
    {
        c.inconclusive("dataset pool is not single-threaded");
        return;
    }

    // a subset of the samples, in random order, possibly with the whole set
    std::vector<tensor_size_t> sub;
    for (tensor_size_t s = 0; s < N; ++s)
    {
        if (rng.chance(0.8))
        {
            sub.push_back(s);
        }
    }
    if (sub.size() < 2 || rng.chance(0.2))
    {
        sub.clear();
        for (tensor_size_t s = 0; s < N; ++s)
        {
            sub.push_back(s);
        }
    }
    indices_t samples(static_cast<tensor_size_t>(sub.size()));
    for (size_t i = 0; i < sub.size(); ++i)
    {
        samples(static_cast<tensor_size_t>(i)) = sub[i];
    }

    const auto  lid = pick_loss(rng, tkind);
    std::string ldesc;
    const auto  loss    = make_loss(rng, lid, ldesc);
    const auto  batch   = static_cast<tensor_size_t>(rng.pick(std::vector<int>{1, 2, 3, 7, 100}));
    const auto  scaling = static_cast<scaling_type>(rng.integer(0, 3));
    const bool  cached  = rng.chance(0.5);
    std::string desc    = ldesc + " samples=" + std::to_string(samples.size()) + "/" + std::to_string(N) + " scalars=" + std::to_string(nscalar) +
                       (wsc ? "+sclass" : "") + (wmc ? "+mclass" : "") + " target=" + (tkind == 0 ? "scalar" : (tkind == 1 ? "sclass" : "mclass")) +
                       std::to_string(tsize) + " fscale=" + vf::json_t::num(fscale) + " batch=" + std::to_string(batch) +
                       " scaling=" + std::to_string(static_cast<int>(scaling)) + (cached ? " cached" : "");

    if (what <= 2)
    {
        auto iterator = flatten_iterator_t{dataset, samples};
        iterator.batch(batch);
        iterator.scaling(scaling);
        if (cached)
        {
            iterator.cache_flatten(1 << 30);
            iterator.cache_targets(1 << 30);
        }
        const double l1 = rng.chance(0.4) ? 0.0 : rng.loguniform(1e-6, 1e6);
        const double l2 = rng.chance(0.3) ? 0.0 : rng.loguniform(1e-6, 1e6);
        const auto   f  = linear::function_t{iterator, *loss, l1, l2};
        auto         o  = wrap_function(f, "", "");
        desc += " l1=" + vf::json_t::num(l1) + " l2=" + vf::json_t::num(l2) + " inputs=" + std::to_string(dataset.columns());
        if (l1 > 0.0)
        {
            c.count("ml_linear_l1");
        }
        if (l2 > 0.0)
        {
            c.count("ml_linear_l2");
        }
        run_ml_object(c, o, "linear::function_t", desc, 1e-3, 10.0, 6, 10, 3, 100);
        return;
    }

    auto iterator = targets_iterator_t{dataset, samples};
    iterator.batch(batch);
    iterator.scaling(scaling);
    if (cached)
    {
        iterator.cache_targets(1 << 30);
    }
    if (what == 3)
    {
        const auto f = gboost::bias_function_t{iterator, *loss};
        auto       o = wrap_function(f, "", "");
        run_ml_object(c, o, "gboost::bias_function_t", desc, 1e-3, 10.0, 6, 10, 3, 100);
    }
    else if (what == 4)
    {
        const auto G = static_cast<tensor_size_t>(rng.integer(1, 4));
        cluster_t  cluster(N, G);
        for (tensor_size_t s = 0; s < N; ++s)
        {
            if (!rng.chance(0.2))
            {
                cluster.assign(s, static_cast<tensor_size_t>(rng.integer(0, G - 1)));
            }
        }
        tensor4d_t soutputs(cat_dims(N, dataset.target_dims())), woutputs(cat_dims(N, dataset.target_dims()));
        const auto oscale = rng.loguniform(1e-2, 3.0);
        for (tensor_size_t i = 0; i < soutputs.size(); ++i)
        {
            soutputs(i) = oscale * rng.uniform(-1.0, 1.0);
            woutputs(i) = rng.chance(0.1) ? 0.0 : oscale * rng.uniform(-1.0, 1.0);
        }
        const auto f = gboost::scale_function_t{iterator, *loss, cluster, soutputs, woutputs};
        auto       o = wrap_function(f, "", "");
        run_ml_object(c, o, "gboost::scale_function_t", desc + " groups=" + std::to_string(G) + " oscale=" + vf::json_t::num(oscale), 1e-3, 10.0, 6,
                      10, 3, 100);
    }
    else
    {
        const auto f = gboost::grads_function_t{iterator, *loss};
        auto       o = wrap_function(f, "", "");
        run_ml_object(c, o, "gboost::grads_function_t", desc, 1e-3, 10.0, 5, 8, 2, 80);
    }
}
} // namespace

int main(int argc, char** argv)
{
    const auto args = vf::parse_args(argc, argv);
    // the exact value-only == value+gradient clause needs single-threaded dataset pools (re-association belongs to C09)
    nano::verif::pool_max_size().store(1U);

    const std::string common = " Per object: points x at radii 1e-3..10 (uniform, lattice, sparse, tied, zero), value-only == value+gradient, "
                               "g.d vs central differences over 9 steps (kinks detected by extrapolated one-sided slopes), and for declared-convex "
                               "objects random pairs + hill-climbing on f(x)+g.(z-x)+mu/2|z-x|^2-f(z). Non-trivial: >= 1 judged differentiable "
                               "point with |g|>1e-8 and, if declared convex, >= 1 judged pair with |z-x|>1e-6; distinct by hash(object, instance, "
                               "points, directions, pairs).";
    if (args.mode == "functions" || args.mode == "default")
    {
        return vf::run(args, "C06",
                       ("case = one registered benchmark prototype (systematic pass over 48 prototypes x dims {1,2,3,4,8,16,32}, then any dims in "
                        "1..32; summands 1..100), 8 points, 20 pairs, 5 x 200 climbing steps." + common).c_str(),
                       case_functions);
    }
    if (args.mode == "losses")
    {
        return vf::run(args, "C06",
                       ("case = one of the 17 losses (round-robin), 1..13 outputs, batch of 2..6 samples, targets of every class pattern (none/one/"
                        "several/all positive, binary), predictions in [-30,30] incl. exact kinks/ties/zeros: non-negativity, 0-1 rules, per-sample "
                        "independence (replace others: bitwise; alone/permuted: 1e-12), then per sample 2 gradient points, 4 pairs, 2 x 60 climbing "
                        "steps." + common).c_str(),
                       case_losses);
    }
    if (args.mode == "constraints")
    {
        return vf::run(args, "C06",
                       ("case = one of the 11 constraint kinds (round-robin) with random coefficients (symmetric P: PD, singular PSD, indefinite, "
                        "negative definite; functional constraints wrap a random benchmark function), 6 points, 12 pairs, 3 x 100 climbing steps." +
                        common).c_str(),
                       case_constraints);
    }
    if (args.mode == "ml")
    {
        return vf::run(args, "C06",
                       ("case = linear::function_t (3/8) | gboost bias | scale | grads | quadratic_surrogate_fit_t | quadratic_surrogate_t over a "
                        "random dataset (3..40 samples, 1..4 scalar (+sclass/mclass) inputs, scalar/sclass/mclass targets, batch, scaling, cache, "
                        "l1/l2 in {0, 1e-6..1e6}), matching loss, 1-thread pool." + common).c_str(),
                       case_ml);
    }
    std::fprintf(stderr, "unknown mode %s\n", args.mode.c_str());
    return 2;
}
