// C18 - shared const objects are thread-safe, results are schedule-independent.
//
// mode "shared": T in {2,4,8,16} threads use ONE const object (solver / loss / dataset / fitted model), each with its own
//   buffers and function clone; every concurrent result must be bit-identical to the same call executed alone before the
//   threads start.  Under the tsan flavour any ThreadSanitizer report is a violation (the monitor itself only uses
//   per-thread result slots, compared after join).
// mode "fit": full fit() of linear models (4 regularisers) and gradient boosting with the internal tuning pool capped at
//   1 / 2 / 16 threads (NANO_VERIF hook), dataset pools of 1 / 2 / 16 threads, restricted CPU affinity and delays injected
//   at the pool's unlocked schedule points; the fitted model must select the same features and predict within 1e-5
//   relative of the reference fit (all pools of size 1, no delays).
#include "common/vf.h"
#include <atomic>
#include <chrono>
#include <nano/dataset.h>
#include <nano/gboost/enums.h>
#include <nano/gboost/model.h>
#include <nano/generator/elemwise_identity.h>
#include <nano/linear.h>
#include <nano/loss.h>
#include <nano/solver.h>
#include <nano/wlearner.h>
#include <regex>
#include <sched.h>
#include <thread>

using namespace nano;

namespace
{
constexpr auto RLX = std::memory_order_relaxed;

// ---- a small deterministic datasource -----------------------------------------------------------------------------
class vf_datasource_t final : public datasource_t
{
public:
    vf_datasource_t(tensor_size_t samples, uint64_t seed, bool classification, double missing)
        : datasource_t("vf")
        , m_samples(samples)
        , m_seed(seed)
        , m_classification(classification)
        , m_missing(missing)
    {
    }

    rdatasource_t clone() const override { return std::make_unique<vf_datasource_t>(*this); }

    void do_load() override
    {
        vf::rng_t  rng(m_seed);
        features_t features{feature_t{"x0"}.scalar(feature_type::float64),
                            feature_t{"x1"}.scalar(feature_type::float32),
                            feature_t{"x2"}.scalar(feature_type::int16),
                            feature_t{"x3"}.scalar(feature_type::float64),
                            feature_t{"c0"}.sclass(3),
                            feature_t{"m0"}.mclass(3),
                            m_classification ? feature_t{"y"}.sclass(2) : feature_t{"y"}.scalar(feature_type::float64)};
        resize(m_samples, features, 6U);
        for (tensor_size_t s = 0; s < m_samples; ++s)
        {
            const double x0 = rng.uniform(-1.0, 1.0), x1 = rng.uniform(0.0, 3.0), x2 = std::floor(rng.uniform(0.0, 10.0));
            const double x3 = rng.normal();
            const int    c0 = static_cast<int>(rng.integer(0, 2));
            if (!rng.chance(m_missing))
            {
                set(s, 0, x0);
            }
            if (!rng.chance(m_missing))
            {
                set(s, 1, x1);
            }
            if (!rng.chance(m_missing))
            {
                set(s, 2, static_cast<int>(x2));
            }
            if (!rng.chance(m_missing))
            {
                set(s, 3, x3);
            }
            if (!rng.chance(m_missing))
            {
                set(s, 4, c0);
            }
            if (!rng.chance(m_missing))
            {
                tensor_mem_t<int8_t, 1> hits(3);
                for (int k = 0; k < 3; ++k)
                {
                    hits(k) = static_cast<int8_t>(rng.integer(0, 1));
                }
                set(s, 5, hits);
            }
            const double y = 0.7 * x0 - 0.2 * x1 + 0.11 * x3 * x3 + (c0 == 1 ? 0.5 : -0.1) + 0.05 * rng.uniform(-1.0, 1.0);
            if (m_classification)
            {
                set(s, 6, y > 0.0 ? 1 : 0);
            }
            else
            {
                set(s, 6, y);
            }
        }
    }

private:
    tensor_size_t m_samples;
    uint64_t      m_seed;
    bool          m_classification;
    double        m_missing;
};

std::unique_ptr<dataset_t> make_dataset(const datasource_t& ds, size_t threads)
{
    auto dataset = std::make_unique<dataset_t>(ds, threads);
    dataset->add<scalar_identity_generator_t>();
    dataset->add<sclass_identity_generator_t>();
    dataset->add<mclass_identity_generator_t>();
    return dataset;
}

bool same_bits(const double* a, const double* b, tensor_size_t n)
{
    return std::memcmp(a, b, static_cast<size_t>(n) * sizeof(double)) == 0;
}

// ---- delays at the pool's unlocked schedule points (fit mode) ------------------------------------------------------
std::atomic<int>      g_delay_mode{0};
std::atomic<uint64_t> g_delay_seed{1};
std::atomic<uint64_t> g_delays{0};
std::atomic<uint64_t> g_points{0};
thread_local uint64_t t_rng = 0;

void hook(int point, const void*)
{
    using namespace nano::verif;
    g_points.fetch_add(1, RLX);
    const int mode = g_delay_mode.load(RLX);
    if (mode == 0)
    {
        return;
    }
    if (point == enqueue_pushed || point == map_pushed || point == worker_woke || point == worker_popped || point == worker_saw_stop ||
        point == dtor_stop_set)
    {
        return; // queue mutex held
    }
    if (t_rng == 0)
    {
        t_rng = vf::mix(g_delay_seed.load(RLX), static_cast<uint64_t>(std::hash<std::thread::id>{}(std::this_thread::get_id())));
    }
    const auto r = vf::splitmix64(t_rng);
    if ((r & 15U) == 0U)
    {
        g_delays.fetch_add(1, RLX);
        if ((r & 16U) != 0U)
        {
            std::this_thread::yield();
        }
        else
        {
            std::this_thread::sleep_for(std::chrono::microseconds((r >> 8U) % (mode == 1 ? 30U : 150U)));
        }
    }
}

// ---- mode "shared" -------------------------------------------------------------------------------------------------
void shared_solver(vf::ctx_t& c, int T)
{
    auto&             rng       = c.rng;
    static const auto functions = function_t::make({1, 8, convexity::ignore, smoothness::ignore, 10}, std::regex(".+"));
    std::vector<std::string> ids;
    for (const auto& id : solver_t::all().ids())
    {
        if (id == "gs" || id == "ags" || id == "gs-lbfgs" || id == "ags-lbfgs")
        {
            continue; // randomised through make_rng(): not deterministic solvers
        }
        ids.push_back(id);
    }
    const auto id     = rng.pick(ids);
    auto       solver = solver_t::all().get(id);
    solver->parameter("solver::max_evals") = rng.integer(50, 400);
    solver->parameter("solver::epsilon")   = rng.loguniform(1e-10, 1e-4);
    if (solver->type() == solver_type::line_search && rng.chance(0.85))
    {
        // every step-initialisation x line-search pairing (each of them is a separate object with possible hidden state)
        solver->lsearch0(rng.pick(lsearch0_t::all().ids()));
        solver->lsearchk(rng.pick(lsearchk_t::all().ids()));
    }
    const solver_t& shared = *solver;

    std::vector<rfunction_t> fns;
    std::vector<vector_t>    x0s;
    for (int t = 0; t < T; ++t)
    {
        const auto& f = *functions[static_cast<size_t>(rng.integer(0, static_cast<int64_t>(functions.size()) - 1))];
        fns.push_back(f.clone());
        vector_t x0{f.size()};
        for (tensor_size_t i = 0; i < f.size(); ++i)
        {
            x0(i) = rng.uniform(-1.0, 1.0);
        }
        x0s.push_back(x0);
    }
    // each call alone, before the threads start
    std::vector<solver_state_t> ref;
    for (int t = 0; t < T; ++t)
    {
        const auto fc = fns[static_cast<size_t>(t)]->clone();
        ref.push_back(shared.minimize(*fc, x0s[static_cast<size_t>(t)], make_null_logger()));
    }
    std::vector<solver_state_t> got(static_cast<size_t>(T));
    std::vector<std::thread>    threads;
    for (int t = 0; t < T; ++t)
    {
        threads.emplace_back(
            [&, t]
            {
                const auto fc               = fns[static_cast<size_t>(t)]->clone();
                got[static_cast<size_t>(t)] = shared.minimize(*fc, x0s[static_cast<size_t>(t)], make_null_logger());
            });
    }
    for (auto& th : threads)
    {
        th.join();
    }
    for (int t = 0; t < T; ++t)
    {
        const auto& a = ref[static_cast<size_t>(t)];
        const auto& b = got[static_cast<size_t>(t)];
        c.count("clause_bit_identical_solver");
        const bool same = a.x().size() == b.x().size() && same_bits(a.x().data(), b.x().data(), a.x().size()) &&
                          (a.fx() == b.fx() || (std::isnan(a.fx()) && std::isnan(b.fx()))) && a.status() == b.status() &&
                          a.fcalls() == b.fcalls() && a.gcalls() == b.gcalls();
        if (!same)
        {
            vf::json_t j;
            j.kv("solver", id).kv("threads", T).kv("function", fns[static_cast<size_t>(t)]->name()).kv("fx_alone", a.fx()).kv("fx_concurrent", b.fx());
            j.kv("fcalls_alone", static_cast<long long>(a.fcalls())).kv("fcalls_concurrent", static_cast<long long>(b.fcalls()));
            c.violation("C18|schedule-dependent-result|solver|" + id, j);
            break;
        }
    }
    c.count("shared:solver");
    c.nontrivial(vf::mix(vf::hash_str(id.c_str()), c.seed));
    if (c.want_sample())
    {
        c.sample(vf::json_t().kv("object", "solver").kv("solver", id).kv("threads", T).kv("function0", fns[0]->name()));
    }
}

void shared_loss(vf::ctx_t& c, int T)
{
    auto&      rng     = c.rng;
    const auto id      = rng.pick(loss_t::all().ids());
    const auto loss    = loss_t::all().get(id);
    const auto samples = rng.integer(1, 200);
    const auto outs    = rng.integer(1, 7);
    tensor4d_t targets(samples, outs, 1, 1), outputs(samples, outs, 1, 1);
    for (tensor_size_t i = 0; i < targets.size(); ++i)
    {
        targets(i) = rng.chance(0.5) ? 1.0 : -1.0;
        outputs(i) = rng.uniform(-5.0, 5.0);
    }
    if (id.find("class") != std::string::npos || id[0] == 's')
    {
        // single-label: exactly one positive per sample
        for (tensor_size_t s = 0; s < samples; ++s)
        {
            const auto hot = rng.integer(0, outs - 1);
            for (tensor_size_t o = 0; o < outs; ++o)
            {
                targets(s, o, 0, 0) = (o == hot) ? 1.0 : -1.0;
            }
        }
    }
    tensor1d_t rv(samples), re(samples);
    tensor4d_t rg(samples, outs, 1, 1);
    loss->value(targets, outputs, rv);
    loss->error(targets, outputs, re);
    loss->vgrad(targets, outputs, rg);
    std::vector<int>         bad(static_cast<size_t>(T), 0);
    std::vector<std::thread> threads;
    for (int t = 0; t < T; ++t)
    {
        threads.emplace_back(
            [&, t]
            {
                tensor1d_t v(samples), e(samples);
                tensor4d_t g(samples, outs, 1, 1);
                for (int rep = 0; rep < 3; ++rep)
                {
                    loss->value(targets, outputs, v);
                    loss->error(targets, outputs, e);
                    loss->vgrad(targets, outputs, g);
                    if (!same_bits(v.data(), rv.data(), v.size()) || !same_bits(e.data(), re.data(), e.size()) ||
                        !same_bits(g.data(), rg.data(), g.size()))
                    {
                        bad[static_cast<size_t>(t)] = 1;
                    }
                }
            });
    }
    for (auto& th : threads)
    {
        th.join();
    }
    c.count("clause_bit_identical_loss", T);
    for (int t = 0; t < T; ++t)
    {
        if (bad[static_cast<size_t>(t)] != 0)
        {
            c.violation("C18|schedule-dependent-result|loss|" + id, vf::json_t().kv("loss", id).kv("threads", T));
            break;
        }
    }
    c.count("shared:loss");
    c.nontrivial(vf::mix(vf::hash_str(id.c_str()), c.seed));
    if (c.want_sample())
    {
        c.sample(vf::json_t().kv("object", "loss").kv("loss", id).kv("threads", T).kv("samples", static_cast<long long>(samples)));
    }
}

struct views_t
{
    tensor2d_t            flat;
    tensor4d_t            targets;
    std::vector<double>   selected; // all per-feature views, concatenated as doubles
};

views_t take_views(const dataset_t& dataset, const indices_t& samples)
{
    views_t    v;
    tensor2d_t fb;
    tensor4d_t tb;
    v.flat    = dataset.flatten(samples, fb);
    v.targets = dataset.targets(samples, tb);
    sclass_mem_t sb;
    mclass_mem_t mb;
    scalar_mem_t cb;
    struct_mem_t stb;
    for (tensor_size_t f = 0; f < dataset.features(); ++f)
    {
        const auto feature = dataset.feature(f);
        switch (feature.type())
        {
        case feature_type::sclass:
        {
            const auto s = dataset.select(samples, f, sb);
            for (tensor_size_t i = 0; i < s.size(); ++i)
            {
                v.selected.push_back(static_cast<double>(s(i)));
            }
            break;
        }
        case feature_type::mclass:
        {
            const auto s = dataset.select(samples, f, mb);
            for (tensor_size_t i = 0; i < s.size(); ++i)
            {
                v.selected.push_back(static_cast<double>(s(i)));
            }
            break;
        }
        default:
            if (::nano::size(feature.dims()) == 1)
            {
                const auto s = dataset.select(samples, f, cb);
                for (tensor_size_t i = 0; i < s.size(); ++i)
                {
                    v.selected.push_back(s(i));
                }
            }
            else
            {
                const auto s = dataset.select(samples, f, stb);
                for (tensor_size_t i = 0; i < s.size(); ++i)
                {
                    v.selected.push_back(s(i));
                }
            }
            break;
        }
    }
    return v;
}

bool same_views(const views_t& a, const views_t& b)
{
    return a.flat.size() == b.flat.size() && same_bits(a.flat.data(), b.flat.data(), a.flat.size()) &&
           a.targets.size() == b.targets.size() && same_bits(a.targets.data(), b.targets.data(), a.targets.size()) &&
           a.selected.size() == b.selected.size() &&
           std::memcmp(a.selected.data(), b.selected.data(), a.selected.size() * sizeof(double)) == 0;
}

indices_t random_samples(vf::rng_t& rng, tensor_size_t total)
{
    const auto n = rng.integer(1, total);
    indices_t  s(n);
    for (tensor_size_t i = 0; i < n; ++i)
    {
        s(i) = rng.integer(0, total - 1);
    }
    if (rng.chance(0.5))
    {
        std::sort(s.begin(), s.end());
    }
    return s;
}

void shared_dataset(vf::ctx_t& c, int T)
{
    auto&      rng = c.rng;
    const auto n   = rng.integer(5, 120);
    auto       ds  = vf_datasource_t{n, rng.next(), rng.chance(0.5), rng.chance(0.3) ? 0.0 : 0.15};
    ds.load();
    const auto dthreads = static_cast<size_t>(rng.pick(std::vector<int>{1, 2, 4, 16}));
    const auto dataset  = make_dataset(ds, dthreads);

    std::vector<indices_t> lists;
    std::vector<views_t>   ref;
    for (int t = 0; t < T; ++t)
    {
        lists.push_back(random_samples(rng, n));
        ref.push_back(take_views(*dataset, lists.back()));
    }
    std::vector<int>         bad(static_cast<size_t>(T), 0);
    std::vector<std::thread> threads;
    for (int t = 0; t < T; ++t)
    {
        threads.emplace_back(
            [&, t]
            {
                for (int rep = 0; rep < 2; ++rep)
                {
                    const auto v = take_views(*dataset, lists[static_cast<size_t>(t)]);
                    if (!same_views(v, ref[static_cast<size_t>(t)]))
                    {
                        bad[static_cast<size_t>(t)] = 1;
                    }
                }
            });
    }
    for (auto& th : threads)
    {
        th.join();
    }
    c.count("clause_bit_identical_dataset_views", T);
    for (int t = 0; t < T; ++t)
    {
        if (bad[static_cast<size_t>(t)] != 0)
        {
            c.violation("C18|schedule-dependent-result|dataset-views", vf::json_t().kv("threads", T).kv("samples", static_cast<long long>(n)));
            break;
        }
    }
    c.count("shared:dataset");
    c.nontrivial(vf::mix(0xd5, c.seed));
    if (c.want_sample())
    {
        c.sample(vf::json_t().kv("object", "dataset").kv("threads", T).kv("samples", static_cast<long long>(n)).kv("dataset_pool", dthreads));
    }
}

std::string g_only_proto; // debugging aid: --protos <id>

rwlearners_t make_prototypes(vf::rng_t& rng)
{
    if (!g_only_proto.empty())
    {
        // comma-separated list: a random non-empty subset of it
        rwlearners_t             protos;
        std::vector<std::string> ids;
        std::string              cur;
        for (const char ch : g_only_proto + ",")
        {
            if (ch == ',')
            {
                if (!cur.empty())
                {
                    ids.push_back(cur);
                }
                cur.clear();
            }
            else
            {
                cur += ch;
            }
        }
        for (const auto& id : ids)
        {
            if (rng.chance(0.6))
            {
                protos.emplace_back(wlearner_t::all().get(id));
            }
        }
        if (protos.empty())
        {
            protos.emplace_back(wlearner_t::all().get(ids[static_cast<size_t>(rng.integer(0, static_cast<int64_t>(ids.size()) - 1))]));
        }
        return protos;
    }
    const auto   all = std::vector<std::string>{"affine", "stump", "dense-table", "dtree", "hinge", "dstep-table", "kbest-table", "ksplit-table"};
    rwlearners_t protos;
    for (const auto& id : all)
    {
        if (rng.chance(0.5) || (id == "stump"))
        {
            protos.emplace_back(wlearner_t::all().get(id));
        }
    }
    return protos;
}

std::string proto_names(const rwlearners_t& protos)
{
    std::string s;
    for (const auto& p : protos)
    {
        s += p->type_id() + " ";
    }
    return s;
}

void configure_gboost(gboost_model_t& model, vf::rng_t& rng, std::string& desc)
{
    const auto rounds   = rng.integer(10, 25);
    const auto patience = rng.integer(2, 5);
    const auto shrink   = rng.pick(std::vector<gboost_shrinkage>{gboost_shrinkage::off, gboost_shrinkage::global, gboost_shrinkage::local});
    const auto subs     = rng.pick(std::vector<gboost_subsample>{gboost_subsample::off, gboost_subsample::subsample, gboost_subsample::bootstrap});
    const auto wscale   = rng.pick(std::vector<gboost_wscale>{gboost_wscale::gboost, gboost_wscale::tboost});
    model.parameter("gboost::max_rounds") = rounds;
    model.parameter("gboost::patience")   = patience;
    model.parameter("gboost::shrinkage")  = shrink;
    model.parameter("gboost::subsample")  = subs;
    model.parameter("gboost::wscale")     = wscale;
    model.parameter("gboost::seed")       = rng.integer(0, 1024);
    model.parameter("gboost::batch")      = rng.integer(10, 200);
    if (subs != gboost_subsample::off)
    {
        model.parameter("gboost::subsample_ratio") = rng.uniform(0.5, 1.0);
    }
    desc += "rounds=" + std::to_string(rounds) + " patience=" + std::to_string(patience) + " shrinkage=" + scat(shrink) +
            " subsample=" + scat(subs) + " wscale=" + scat(wscale) + " ";
}

ml::params_t make_fit_params(vf::rng_t& rng, std::string& desc)
{
    auto params   = ml::params_t{};
    auto splitter = splitter_t::all().get(rng.chance(0.7) ? "k-fold" : "random");
    const auto folds = rng.integer(2, 4);
    splitter->parameter("splitter::folds") = folds;
    splitter->parameter("splitter::seed")  = rng.integer(0, 1024);
    params.splitter(*splitter);
    const auto tuner = rng.chance(0.5) ? "local-search" : "surrogate";
    params.tuner(tuner);
    desc += "splitter=" + splitter->type_id() + " folds=" + std::to_string(folds) + " tuner=" + tuner + " ";
    return params;
}

void shared_model(vf::ctx_t& c, int T)
{
    auto&      rng  = c.rng;
    const auto n    = rng.integer(40, 70);
    const bool cls  = rng.chance(0.5);
    auto       ds   = vf_datasource_t{n, rng.next(), cls, 0.1};
    ds.load();
    const auto dataset = make_dataset(ds, static_cast<size_t>(rng.pick(std::vector<int>{1, 2, 8})));
    const auto all     = arange(0, dataset->samples());
    const auto loss    = loss_t::all().get(cls ? "s-logistic" : "mse");
    std::string desc;
    auto        params = make_fit_params(rng, desc);

    const bool                 use_gboost = rng.chance(0.5);
    std::unique_ptr<learner_t> model;
    if (use_gboost)
    {
        auto gb = std::make_unique<gboost_model_t>();
        configure_gboost(*gb, rng, desc);
        auto protos = make_prototypes(rng);
        desc += "protos=" + proto_names(protos);
        gb->prototypes(std::move(protos));
        gb->fit(*dataset, all, *loss, params);
        model = std::move(gb);
    }
    else
    {
        const auto id = rng.pick(linear_t::all().ids());
        auto       lm = linear_t::all().get(id);
        desc += "linear=" + id + " ";
        lm->fit(*dataset, all, *loss, params);
        model = std::move(lm);
    }
    const learner_t& shared = *model;

    std::vector<indices_t>  lists;
    std::vector<tensor4d_t> ref;
    for (int t = 0; t < T; ++t)
    {
        lists.push_back(random_samples(rng, n));
        ref.push_back(shared.predict(*dataset, lists.back()));
    }
    std::vector<int>         bad(static_cast<size_t>(T), 0);
    std::vector<std::thread> threads;
    for (int t = 0; t < T; ++t)
    {
        threads.emplace_back(
            [&, t]
            {
                for (int rep = 0; rep < 2; ++rep)
                {
                    const auto  p = shared.predict(*dataset, lists[static_cast<size_t>(t)]);
                    const auto& r = ref[static_cast<size_t>(t)];
                    if (p.size() != r.size() || !same_bits(p.data(), r.data(), p.size()))
                    {
                        bad[static_cast<size_t>(t)] = 1;
                    }
                }
            });
    }
    for (auto& th : threads)
    {
        th.join();
    }
    c.count("clause_bit_identical_predict", T);
    for (int t = 0; t < T; ++t)
    {
        if (bad[static_cast<size_t>(t)] != 0)
        {
            c.violation(std::string("C18|schedule-dependent-result|predict|") + (use_gboost ? "gboost" : "linear"), vf::json_t().kv("threads", T).kv("config", desc));
            break;
        }
    }
    c.count(use_gboost ? "shared:gboost-model" : "shared:linear-model");
    c.nontrivial(vf::mix(vf::hash_str(desc.c_str()), c.seed));
    if (c.want_sample())
    {
        c.sample(vf::json_t().kv("object", use_gboost ? "fitted gboost model" : "fitted linear model").kv("threads", T).kv("config", desc));
    }
}

// ---- mode "fit" ----------------------------------------------------------------------------------------------------
struct fit_result_t
{
    tensor4d_t predictions;
    indices_t  features;
    tensor2d_t weights;
    tensor_size_t wlearners{0};
    std::string   summary; ///< weak learners of the fitted model, written out
};

void restrict_cpus(int cpus)
{
    cpu_set_t set;
    CPU_ZERO(&set);
    const int total = static_cast<int>(std::thread::hardware_concurrency());
    for (int i = 0; i < std::min(cpus, total); ++i)
    {
        CPU_SET(i, &set);
    }
    sched_setaffinity(0, sizeof(set), &set);
}

void run_fit(vf::ctx_t& c)
{
    auto&      rng = c.rng;
    const auto n   = rng.integer(50, 110);
    const bool cls = rng.chance(0.4);
    const auto dseed = rng.next();
    auto       ds  = vf_datasource_t{n, dseed, cls, rng.chance(0.5) ? 0.0 : 0.1};
    ds.load();
    auto loss_id = cls ? rng.pick(std::vector<std::string>{"s-logistic", "s-classnll", "s-hinge"}) : rng.pick(std::vector<std::string>{"mse", "mae", "cauchy"});
    // "robust" regime: smooth loss and no decision trees in the pool.  Outside it the fit is numerically chaotic on the
    // unchanged library (non-smooth line searches, exact score ties in tiny tree nodes): re-association noise decides.
    const bool robust = c.args.get("regime") == "smooth" || (c.args.get("regime").empty() && rng.chance(0.75));
    if (robust)
    {
        loss_id = cls ? (loss_id == "s-hinge" ? "s-logistic" : loss_id) : "mse";
    }
    const auto  loss    = loss_t::all().get(loss_id);
    std::string desc    = "loss=" + loss_id + " ";
    const auto  fseed   = rng.next();
    const bool  use_gboost = c.args.get("family", rng.chance(0.5) ? "gboost" : "linear") == "gboost";
    // elastic net is the only shipped model with two tuned hyper-parameters (multi-trial batches in ml::tune)
    auto linear_id = rng.pick(linear_t::all().ids());
    if (rng.chance(0.35))
    {
        for (const auto& id : linear_t::all().ids())
        {
            if (id.find("elastic") != std::string::npos)
            {
                linear_id = id;
            }
        }
    }

    const auto fit_once = [&](size_t tune_pool, size_t dataset_pool, int delay_mode, int cpus) -> fit_result_t
    {
        vf::rng_t frng(fseed); // identical configuration for every run of this case
        std::string d2;
        if (const auto dir = c.args.get("keeplogs"); !dir.empty())
        {
            static int  run = 0;
            const auto  sub = dir + "/run" + std::to_string(run++);
            std::system(("mkdir -p " + sub).c_str());
            setenv("TMPDIR", sub.c_str(), 1);
        }
        restrict_cpus(cpus);
        // the dataset's own pool is created first (pool sizes are clamped to max_size() at construction) ...
        nano::verif::pool_max_size().store(std::max(tune_pool, dataset_pool), RLX);
        auto dset = make_dataset(ds, dataset_pool);
        // ... then the cap that ml::tune's internal pool will see
        nano::verif::pool_max_size().store(tune_pool, RLX);
        g_delay_mode.store(delay_mode, RLX);
        const auto   all    = arange(0, dset->samples());
        auto         params = make_fit_params(frng, d2);
        fit_result_t r;
        if (use_gboost)
        {
            auto gb = gboost_model_t{};
            configure_gboost(gb, frng, d2);
            auto protos = make_prototypes(frng);
            if (robust)
            {
                protos.erase(std::remove_if(protos.begin(), protos.end(), [](const rwlearner_t& p) { return p->type_id() == "dtree"; }), protos.end());
            }
            d2 += "protos=" + proto_names(protos);
            gb.prototypes(std::move(protos));
            gb.fit(*dset, all, *loss, params);
            r.predictions = gb.predict(*dset, all);
            r.features    = gb.features();
            r.wlearners   = static_cast<tensor_size_t>(gb.wlearners().size());
            for (const auto& wl : gb.wlearners())
            {
                r.summary += wl->type_id() + "(";
                for (const auto f : wl->features())
                {
                    r.summary += std::to_string(f) + ",";
                }
                r.summary += ") ";
            }
        }
        else
        {
            auto lm = linear_t::all().get(linear_id);
            d2 += "linear=" + linear_id + " ";
            lm->fit(*dset, all, *loss, params);
            r.predictions = lm->predict(*dset, all);
            r.weights     = lm->weights();
        }
        g_delay_mode.store(0, RLX);
        nano::verif::pool_max_size().store(0, RLX);
        restrict_cpus(1024);
        if (desc.find("splitter=") == std::string::npos)
        {
            desc += d2;
        }
        return r;
    };

    // reference: everything single-threaded, no delays
    const auto ref = fit_once(1U, 1U, 0, 1024);

    const auto pools = std::vector<size_t>{1U, 2U, 16U};
    double     scale = 1.0;
    for (tensor_size_t i = 0; i < ref.predictions.size(); ++i)
    {
        if (std::isfinite(ref.predictions(i)))
        {
            scale = std::max(scale, std::fabs(ref.predictions(i)));
        }
    }
    const int variants = 2;
    for (int v = 0; v < variants; ++v)
    {
        auto tp = rng.pick(pools);
        auto dp = rng.pick(pools);
        if (c.args.get("same") == "1")
        {
            tp = 1U;
            dp = 1U;
        }
        if (c.args.get("same") == "2")
        {
            tp = 1U;
        }
        const auto delay = static_cast<int>(rng.integer(0, 2));
        const auto cpus  = rng.pick(std::vector<int>{1, 2, 1024});
        g_delay_seed.store(rng.next(), RLX);
        const auto got = fit_once(tp, dp, delay, cpus);
        c.count("fits_compared");
        c.count("tune_pool:" + std::to_string(tp));
        c.count("dataset_pool:" + std::to_string(dp));
        c.count("cpus:" + std::to_string(cpus));
        vf::json_t w;
        w.kv("family", use_gboost ? "gboost" : "linear").kv("config", desc).kv("samples", static_cast<long long>(n)).kv("tune_pool", tp).kv("dataset_pool", dp);
        w.kv("delay_mode", delay).kv("cpus", cpus);
        if (use_gboost)
        {
            c.count("clause_same_features");
            const bool same = got.features.size() == ref.features.size() &&
                              std::equal(got.features.begin(), got.features.end(), ref.features.begin());
            if (!same)
            {
                w.kv("wlearners_ref", static_cast<long long>(ref.wlearners)).kv("wlearners_got", static_cast<long long>(got.wlearners));
                w.kv("model_ref", ref.summary).kv("model_got", got.summary);
                w.arr("features_ref", ref.features.data(), static_cast<size_t>(ref.features.size()));
                w.arr("features_got", got.features.data(), static_cast<size_t>(got.features.size()));
                c.violation(std::string("C18|fit-depends-on-threads|gboost|") + (robust ? "robust-regime" : "chaotic-regime"), w.kv("clause", "selected-features"));
                continue;
            }
        }
        c.count("clause_predictions_1e-5");
        double worst = 0;
        bool   shape = got.predictions.size() == ref.predictions.size();
        for (tensor_size_t i = 0; shape && i < ref.predictions.size(); ++i)
        {
            const double a = ref.predictions(i), b = got.predictions(i);
            if (std::isnan(a) != std::isnan(b))
            {
                worst = 1.0;
            }
            else if (!std::isnan(a))
            {
                worst = std::max(worst, std::fabs(a - b) / scale);
            }
        }
        c.maxc("prediction_difference_1e-9_units", static_cast<int64_t>(worst * 1e9));
        if (!shape || !(worst <= 1e-5))
        {
            w.kv("worst_relative_difference", worst);
            c.violation(use_gboost ? std::string("C18|fit-depends-on-threads|gboost|") + (robust ? "robust-regime" : "chaotic-regime")
                                   : std::string("C18|fit-depends-on-threads|linear"),
                        w.kv("clause", "predictions"));
        }
    }
    c.count(use_gboost ? (robust ? "family:gboost-robust-regime" : "family:gboost-chaotic-regime") : "family:linear");
    c.count("schedule_points_hit", static_cast<int64_t>(g_points.exchange(0, RLX)));
    c.count("delays_injected", static_cast<int64_t>(g_delays.exchange(0, RLX)));
    c.nontrivial(vf::mix(vf::hash_str(desc.c_str()), dseed));
    if (c.want_sample())
    {
        c.sample(vf::json_t().kv("family", use_gboost ? "gboost" : "linear").kv("config", desc).kv("samples", static_cast<long long>(n)).kv("ref_wlearners", static_cast<long long>(ref.wlearners)));
    }
}
} // namespace

int main(int argc, char** argv)
{
    const auto args = vf::parse_args(argc, argv);
    g_only_proto    = args.get("protos");
    if (args.mode == "fit")
    {
        nano::verif::pool_hook().store(&hook);
        return vf::run(args, "C18",
                       "case = one dataset (50..110 samples, 6 mixed features with missing values) + one model configuration (linear: 4 regularisers; "
                       "gboost: weak-learner pool, shrinkage, subsample mode with fixed seed, wscale; splitter, tuner, loss), fitted once with all pools "
                       "of size 1 (reference) and twice with (tuning pool, dataset pool) in {1,2,16}^2, CPU affinity 1|2|all, delay mode 0..2 at the "
                       "pool's unlocked schedule points; every case is non-trivial; distinct by hash(configuration, data seed)",
                       run_fit);
    }
    return vf::run(args, "C18",
                   "case = one shared const object (deterministic solver | loss | dataset | fitted linear/gboost model) used by T in {2,4,8,16} threads, "
                   "each with its own function clone / buffers / sample list; every case is non-trivial; distinct by hash(object configuration, case seed)",
                   [](vf::ctx_t& c)
                   {
                       const int T = c.rng.pick(std::vector<int>{2, 4, 8, 16});
                       c.count("threads:" + std::to_string(T));
                       // solver scenarios are cheap and cover 32 solver ids x 4 x 5 line-search objects: half of the cases
                       switch (c.rng.integer(0, 19))
                       {
                       case 0:
                       case 1:
                       case 2:
                       case 3:
                       case 4:
                       case 5:
                       case 6:
                       case 7:
                       case 8:
                       case 9: shared_solver(c, T); break;
                       case 10:
                       case 11:
                       case 12: shared_loss(c, T); break;
                       case 13:
                       case 14:
                       case 15:
                       case 16: shared_dataset(c, T); break;
                       default: shared_model(c, T); break;
                       }
                   });
}
